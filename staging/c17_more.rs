// appended to c17_scalars.rs when no check is running

/// History is byte-transparent for every scalar: push(enc(c)) then Up recalls it.
#[cfg(feature = "history")]
#[kani::proof]
#[kani::unwind(8)]
fn c17_history_recall() {
    let c = any_scalar();
    let mut enc = [0u8; 4];
    let n = c.encode_utf8(&mut enc).len();
    let mut h = History::new([0u8; 6]);
    h.push(as_str(&enc[..n]));
    match h.next_older() {
        None => assert!(false),
        Some(e) => {
            let eb = e.as_bytes();
            assert!(eb.len() == n);
            let mut i = 0;
            while i < 4 {
                if i < n {
                    assert!(eb[i] == enc[i]);
                }
                i += 1;
            }
        }
    }
    assert!(h.next_older().is_none());
    kani::cover!(n == 4);
    kani::cover!(n == 1);
}

/// The `error: unexpected option: -c` line carries every scalar unchanged.
#[kani::proof]
#[kani::unwind(24)]
fn c17_error_line() {
    use crate::sinks::ExpectSink;
    use embedded_cli::cli::CliBuilder;
    let c = any_scalar();
    let mut enc = [0u8; 4];
    let n = c.encode_utf8(&mut enc).len();
    const R: usize = 40;
    let mut e = [0u8; R];
    let head = b"$ error: unexpected option: -";
    let mut l = 0;
    while l < head.len() {
        e[l] = head[l];
        l += 1;
    }
    let mut i = 0;
    while i < 4 {
        if i < n {
            e[l] = enc[i];
            l += 1;
        }
        i += 1;
    }
    e[l] = b'\r';
    e[l + 1] = b'\n';
    l += 2;
    let mut cli = CliBuilder::default()
        .writer(ExpectSink::<R>::new(e, l))
        .command_buffer([0u8; 4])
        .history_buffer([0u8; 4])
        .build()
        .unwrap();
    cli.__verif_process_error(embedded_cli::service::ParseError::UnexpectedShortOption { name: c }).unwrap();
    assert!(cli.__verif_writer().ok(), "C17: the option character is printed unchanged");
    assert!(cli.__verif_writer().pending == 0, "C15: flushed");
    kani::cover!(n == 3);
}
