// P4: more value types.  Appended to c09_derive.rs (plus table entries) when no check is running.

#[derive(Command)]
pub enum P4 {
    Ty {
        #[arg(short = 'c')]
        ch: Option<char>,
        #[arg(short = 'b')]
        on: Option<bool>,
        #[arg(short = 'w', default_value_t = 300)]
        wide: u16,
    },
}
