// concrete sub-command cases; appended to c09_derive.rs when no check is running

/// Sub-commands on concrete token lists (the symbolic per-length versions p2_* need
/// more than 20 GB since unit variants parse their arguments and are attempted in the
/// thorough tier only): the first plain value after the parent's own options names the
/// sub-command, which gets the remaining tokens; errors are the first offending item.
fn p2_case(name: &'static str, raw: &'static str, empty: bool, want: u8, payload: &'static str) {
    let cmd = RawCommand::new(name, ArgList::new(Tokens::from_raw(raw, empty)));
    let got: u8 = match P2::parse(cmd) {
        Ok(P2::Base { x: false, cmd: P3::Shadowed }) => 1,
        Ok(P2::Base { x: true, cmd: P3::Ping }) => 2,
        Ok(P2::Base { .. }) => 3,
        Ok(P2::Tup(P3::Ping)) => 4,
        Ok(P2::Tup(P3::Shadowed)) => 5,
        Ok(P2::Opt { cmd: None }) => 6,
        Ok(P2::Opt { cmd: Some(P3::Shadowed) }) => 7,
        Ok(P2::Opt { cmd: Some(P3::Ping) }) => 8,
        Err(ParseError::UnknownCommand) => 20,
        Err(ParseError::MissingRequiredArgument { name }) => {
            assert!(name.len() == payload.len() && name.as_bytes()[1] == payload.as_bytes()[1], "C09: usage name of the missing argument");
            21
        }
        Err(ParseError::UnexpectedShortOption { name }) => {
            assert!(name == payload.chars().next().unwrap(), "C09: the offending option");
            22
        }
        Err(ParseError::UnexpectedArgument { value }) => {
            assert!(value.len() == payload.len() && value.as_bytes()[0] == payload.as_bytes()[0], "C09: the offending argument");
            23
        }
        Err(_) => 29,
    };
    assert!(got == want, "C09: sub-command outcome as declared");
    kani::cover!(got == want);
}

macro_rules! p2_case {
    ($fn_name:ident, $name:expr, $raw:expr, $empty:expr, $want:expr, $payload:expr) => {
        #[kani::proof]
        #[kani::unwind(12)]
        fn $fn_name() {
            p2_case($name, $raw, $empty, $want, $payload);
        }
    };
}
p2_case!(p2c_base_exit, "base", "exit", false, 1, "");
p2_case!(p2c_base_flag_ping, "base", "-x\0ping", false, 2, "");
p2_case!(p2c_base_unknown, "base", "nope", false, 20, "");
p2_case!(p2c_base_missing, "base", "", true, 21, "<COMMAND>");
p2_case!(p2c_base_bad_option, "base", "-y\0ping", false, 22, "y");
p2_case!(p2c_base_sub_extra_arg, "base", "ping\0zz", false, 23, "zz");
p2_case!(p2c_tup_ping, "t", "ping", false, 4, "");
p2_case!(p2c_tup_missing, "t", "", true, 21, "<COMMAND>");
p2_case!(p2c_opt_none, "opt", "", true, 6, "");
p2_case!(p2c_opt_exit, "opt", "exit", false, 7, "");
