//! Verification harness crate for embedded-cli-rs (see /verif/DESIGN.md).
//!
//! Every `#[kani::proof]` function here is one solver query over the real code
//! of /repo (path dependency), compiled with `--cfg funbiscuit_embedded_cli_rs_verif`.
#![allow(unused)]
#![allow(clippy::all)]

pub mod inv;
pub mod model;
pub mod sinks;
pub mod term;

#[cfg(kani)]
mod c02_utf8;
#[cfg(kani)]
mod c04_decoder;
#[cfg(kani)]
mod c05_editor;
#[cfg(kani)]
mod c17_scalars;
#[cfg(kani)]
mod c07_tokens;
#[cfg(kani)]
mod c08_args;
#[cfg(all(kani, feature = "autocomplete"))]
mod c11_complete;
#[cfg(all(kani, feature = "help"))]
mod c12_help;
#[cfg(kani)]
mod c13_output;
#[cfg(all(kani, feature = "history"))]
mod c10_history;
#[cfg(all(kani, feature = "autocomplete"))]
mod c11_derived;
#[cfg(kani)]
mod cli_common;
#[cfg(kani)]
mod cli_steps;
#[cfg(kani)]
mod cli_term;
#[cfg(kani)]
mod cli_fail;
#[cfg(kani)]
mod cli_glue;
#[cfg(kani)]
mod c09_derive;
#[cfg(all(kani, feature = "help"))]
mod c12_content;
