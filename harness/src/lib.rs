//! Verification harness crate for embedded-cli-rs (see /verif/DESIGN.md).
//!
//! Every `#[kani::proof]` function here is one solver query over the real code
//! of /repo (path dependency), compiled with `--cfg funbiscuit_embedded_cli_rs_verif`.
#![allow(unused)]
#![allow(clippy::all)]

pub mod inv;
pub mod model;
pub mod sinks;

#[cfg(kani)]
mod c02_utf8;
#[cfg(kani)]
mod c04_decoder;
#[cfg(kani)]
mod c05_editor;
#[cfg(kani)]
mod c17_scalars;
#[cfg(kani)]
mod c07_tokens;
#[cfg(kani)]
mod c08_args;
