//! C06 / C13 at Cli level: the terminal (ECMA-48 subset emulator as the sink)
//! always shows prompt + line with the cursor at the editor's cursor.
//!
//! Coupling invariant Show(cli, term): the current row is prompt ++ line (then
//! blanks) and the column is |prompt| + cursor.  One step per key: assume CliInv
//! and Show (the terminal is *constructed* from the symbolic editor state), run
//! the key, assert Show again.
use crate::cli_common::*;
use crate::cli_steps::*;
use crate::inv::*;
use crate::model::args::decode_at;
use crate::term::*;
use core::convert::Infallible;
use embedded_cli::__verif::*;
use embedded_cli::cli::CliHandle;
use embedded_cli::command::RawCommand;

pub const TW: usize = N + 5;
pub type Term = TermSink<TW>;

const PROMPT_CELLS: [[u32; 3]; 3] = [[0, 0, 0], ['$' as u32, ' ' as u32, 0], [0xe9, '>' as u32, ' ' as u32]];

/// cells of `prompt ++ line`
fn row_of(prompt: usize, buf: &[u8; N], valid: usize) -> ([u32; TW], usize) {
    let mut cells = [BLANK; TW];
    let pl = PROMPT_CHARS[prompt];
    let mut i = 0;
    while i < 3 {
        if i < pl {
            cells[i] = PROMPT_CELLS[prompt][i];
        }
        i += 1;
    }
    let mut col = pl;
    let mut p = 0usize;
    let mut k = 0;
    while k < N {
        if p < valid {
            let (c, l) = decode_at(buf, p);
            cells[col] = c;
            col += 1;
            p += l;
        }
        k += 1;
    }
    (cells, col)
}

pub fn term_showing(pre: &Pre) -> Term {
    let mut t = Term::blank();
    let (cells, _) = row_of(pre.prompt, &pre.ebuf, pre.valid);
    t.cells = cells;
    t.col = PROMPT_CHARS[pre.prompt] + pre.cursor;
    t
}

pub fn shows(t: &Term, prompt: usize, buf: &[u8; N], valid: usize, cursor: usize) -> bool {
    if t.bad || !t.settled() {
        return false;
    }
    let (cells, _) = row_of(prompt, buf, valid);
    let mut i = 0;
    while i < TW {
        if t.cells[i] != cells[i] {
            return false;
        }
        i += 1;
    }
    t.col == PROMPT_CHARS[prompt] + cursor
}

/// display-width-1 printable text only: no DEL in the line
fn printable(pre: &Pre) -> bool {
    let mut i = 0;
    while i < N {
        if i < pre.valid && pre.ebuf[i] == 0x7f {
            return false;
        }
        i += 1;
    }
    true
}

fn printable_history(pre: &Pre) -> bool {
    let mut i = 0;
    while i < H {
        if i < pre.hused && pre.hbuf[i] == 0x7f {
            return false;
        }
        i += 1;
    }
    true
}

fn show_key_body(key: Key) {
    let pre = any_pre();
    kani::assume(printable(&pre) && printable_history(&pre));
    let mut cli = build(&pre, term_showing(&pre));
    let (r, _seen) = press(&mut cli, key);
    assert!(r.is_ok());
    let p = post(&cli);
    let t = cli.__verif_writer();
    assert!(t.rows == 0, "no line feed for an editing key");
    assert!(shows(t, pre.prompt, &p.ebuf, p.valid, p.cursor), "C06: terminal shows prompt + line, cursor included");
    assert!(t.pending == 0);
    let changed = !line_eq(&p, &line_of(&pre));
    kani::cover!(changed);
    kani::cover!(!changed);
}

macro_rules! show_key {
    ($name:ident, $key:expr) => {
        #[kani::proof]
        #[kani::unwind(9)]
        fn $name() {
            show_key_body($key);
        }
    };
}
show_key!(show_backspace, Key::Backspace);
show_key!(show_forward, Key::Forward);
show_key!(show_back, Key::Back);
show_key!(show_up, Key::Up);
show_key!(show_down, Key::Down);
show_key!(show_tab, Key::Tab);

fn show_char_body(l: usize) {
    let pre = any_pre();
    kani::assume(printable(&pre));
    let (enc, c) = any_char_of_len(l);
    kani::assume(c as u32 != 0x7f);
    let mut cli = build(&pre, term_showing(&pre));
    let r = cli.__verif_on_text(unsafe { core::str::from_utf8_unchecked(&enc[..l]) });
    assert!(r.is_ok());
    let p = post(&cli);
    let t = cli.__verif_writer();
    assert!(t.rows == 0);
    assert!(shows(t, pre.prompt, &p.ebuf, p.valid, p.cursor), "C06: terminal shows prompt + line, cursor included");
    let accepted = pre.valid + l <= N;
    kani::cover!(N < l + 1 || (accepted && pre.cursor < pre.count), "inserted inside");
    kani::cover!(N < l || (accepted && pre.cursor == pre.count), "appended");
    kani::cover!(N == 0 || !accepted, "rejected");
}

macro_rules! show_char {
    ($name:ident, $l:expr) => {
        #[kani::proof]
        #[kani::unwind(9)]
        fn $name() {
            show_char_body($l);
        }
    };
}
show_char!(show_char1, 1);
show_char!(show_char2, 2);
show_char!(show_char3, 3);

/// What Enter must send to the terminal: CR LF, then the handler's output with LF ->
/// CR LF and one CR LF iff that output is non-empty and does not end with LF, then the
/// (possibly new) prompt.  `out` is "" when the handler is not entered or writes nothing.
fn enter_transcript(out: &str, prompt_now: usize) -> ([u8; TR], usize) {
    let mut e = [0u8; TR];
    e[0] = b'\r';
    e[1] = b'\n';
    let mut l = 2usize;
    let ob = out.as_bytes();
    let mut i = 0;
    while i < ob.len() {
        if ob[i] == b'\n' {
            e[l] = b'\r';
            l += 1;
        }
        e[l] = ob[i];
        l += 1;
        i += 1;
    }
    if ob.len() > 0 && ob[ob.len() - 1] != b'\n' {
        e[l] = b'\r';
        e[l + 1] = b'\n';
        l += 2;
    }
    let pb = PROMPTS[prompt_now].as_bytes();
    let mut i = 0;
    while i < 4 {
        if i < pb.len() {
            e[l] = pb[i];
            l += 1;
        }
        i += 1;
    }
    (e, l)
}

/// Enter with a handler that (mode 0) writes nothing, (1) writes one of the constant
/// texts, (2) changes the prompt.  Part 1 (real code): the sink receives exactly
/// `enter_transcript`, the line is empty afterwards.  Part 2 (`term_enter_lemma`):
/// on the terminal that transcript leaves the submitted line on its own row, the
/// output below it and a fresh row showing the (new) prompt with the cursor behind it.
/// (With the emulator as the sink of the real call the query ran out of 24 GB.)
/// `scenario`: 0 handler silent, 1..=4 handler writes OUTS[scenario], 5 handler changes
/// the prompt, 6 handler writes `x` AND changes the prompt (a constant per instance: with a
/// symbolic scenario the query ran out of 24 GB)
fn show_enter_body(valid: usize, scenario: usize) {
    let pre = any_pre_valid(valid);
    kani::assume(printable(&pre));
    let mode: u8 = if scenario == 0 {
        0
    } else if scenario <= 4 {
        1
    } else if scenario == 5 {
        2
    } else {
        3
    };
    let which: usize = if scenario <= 4 {
        scenario
    } else if scenario == 6 {
        1
    } else {
        0
    };
    let new_prompt: usize = kani::any();
    kani::assume(new_prompt < 3);
    // the handler is entered iff the line has a token, i.e. a byte other than a blank
    // (no help-shaped line fits into 3 bytes); the token oracle itself is C01's
    let mut dispatch = false;
    let mut i = 0;
    while i < N {
        if i < pre.valid && pre.ebuf[i] != b' ' {
            dispatch = true;
        }
        i += 1;
    }
    let out = if dispatch && (mode == 1 || mode == 3) { OUTS[which] } else { "" };
    let prompt_now = if dispatch && (mode == 2 || mode == 3) { new_prompt } else { pre.prompt };
    let (e, el) = enter_transcript(out, prompt_now);
    let mut cli = build(&pre, crate::sinks::ExpectSink::<TR>::new(e, el));
    let mut calls = 0usize;
    let r = {
        let mut p = RawCommand::processor(|h: &mut CliHandle<'_, crate::sinks::ExpectSink<TR>, Infallible>, _c: RawCommand<'_>| {
            calls += 1;
            if mode == 1 || mode == 3 {
                h.writer().write_str(OUTS[which])?;
            }
            if mode == 2 || mode == 3 {
                h.set_prompt(PROMPTS[new_prompt]);
            }
            Ok(())
        });
        cli.__verif_on_control::<RawCommand<'_>, _>(ControlInput::Enter, &mut p)
    };
    assert!(r.is_ok());
    assert!(calls == if dispatch { 1 } else { 0 });
    let p = post(&cli);
    assert!(p.valid == 0 && p.cursor == 0);
    assert!(cli.__verif_prompt().as_ptr() == PROMPTS[prompt_now].as_ptr(), "C06: prompt change applied");
    let t = cli.__verif_writer();
    assert!(t.ok(), "C06/C13: line break, output, line break iff owed, prompt - in this order and nothing else");
    assert!(t.pending == 0, "C15: flushed");
    kani::cover!(valid < 1 || dispatch, "dispatched");
    kani::cover!(valid < 1 || mode < 2 || (dispatch && new_prompt != pre.prompt), "prompt changed by the handler");
    kani::cover!(valid < 1 || !dispatch, "blank line");
    kani::cover!(valid > 0 || !dispatch, "empty line");
}

/// Part 2 for Enter: from a terminal that shows prompt + line (cursor anywhere in the
/// line), `enter_transcript` leaves that row untouched as the previous row when nothing
/// is written, produces exactly the expected number of rows, and shows the prompt on a
/// fresh row with the cursor behind it.
#[kani::proof]
#[kani::unwind(41)]
fn term_enter_lemma() {
    let pre = any_pre();
    kani::assume(printable(&pre));
    let which: usize = kani::any();
    kani::assume(which < 5);
    let prompt_now: usize = kani::any();
    kani::assume(prompt_now < 3);
    let out = OUTS[which];
    let (e, el) = enter_transcript(out, prompt_now);
    let mut t = term_showing(&pre);
    use embedded_io::Write;
    t.write(&e[..el]).unwrap();
    let empty = [0u8; N];
    assert!(shows(&t, prompt_now, &empty, 0, 0), "C06: fresh row shows the prompt, cursor behind it");
    let ob = out.as_bytes();
    let mut lfs = 0usize;
    let mut i = 0;
    while i < 3 {
        if i < ob.len() && ob[i] == b'\n' {
            lfs += 1;
        }
        i += 1;
    }
    let want_rows = 1 + if ob.len() == 0 { 0 } else { lfs + if ob[ob.len() - 1] == b'\n' { 0 } else { 1 } };
    assert!(t.rows == want_rows, "C13: one line break added iff the output is non-empty and does not end with one");
    if ob.len() == 0 {
        let (cells, _) = row_of(pre.prompt, &pre.ebuf, pre.valid);
        let mut i = 0;
        while i < TW {
            assert!(t.prev[i] == cells[i], "C13: the submitted line stays on its own row");
            i += 1;
        }
    }
    kani::cover!(which == 4 && prompt_now == 2 && pre.cursor < pre.count);
    kani::cover!(which == 0 && pre.valid == N);
}

macro_rules! show_enter_case {
    ($name:ident, $v:expr, $s:expr) => {
        #[kani::proof]
        #[kani::unwind(9)]
        fn $name() {
            show_enter_body($v, $s);
        }
    };
}
show_enter_case!(show_enter_v0_silent, 0, 0);
show_enter_case!(show_enter_v1_silent, 1, 0);
show_enter_case!(show_enter_v1_x, 1, 1);
show_enter_case!(show_enter_v1_prompt, 1, 5);
show_enter_case!(show_enter_v2_silent, 2, 0);
show_enter_case!(show_enter_v2_x, 2, 1);
show_enter_case!(show_enter_v2_xlf, 2, 2);
show_enter_case!(show_enter_v2_lf, 2, 3);
show_enter_case!(show_enter_v2_xlfx, 2, 4);
show_enter_case!(show_enter_v2_prompt, 2, 5);
show_enter_case!(show_enter_v2_x_and_prompt, 2, 6);
show_enter_case!(show_enter_v3_silent, 3, 0);
show_enter_case!(show_enter_v3_x, 3, 1);
show_enter_case!(show_enter_v3_xlf, 3, 2);
show_enter_case!(show_enter_v3_prompt, 3, 5);

macro_rules! show_write_case {
    ($w0:ident, $w2:ident, $v:expr) => {
        #[kani::proof]
        #[kani::unwind(9)]
        fn $w0() {
            show_cli_write_body($v, 0);
        }
        #[kani::proof]
        #[kani::unwind(9)]
        fn $w2() {
            show_cli_write_body($v, 2);
        }
    };
}
show_write_case!(show_cli_write_v0_p0, show_cli_write_v0_p2, 0);
show_write_case!(show_cli_write_v1_p0, show_cli_write_v1_p2, 1);
show_write_case!(show_cli_write_v2_p0, show_cli_write_v2_p2, 2);
show_write_case!(show_cli_write_v3_p0, show_cli_write_v3_p2, 3);

const OUTS: [&str; 5] = ["", "x", "x\n", "\n", "x\nx"];
const TR: usize = 40;

/// The byte transcript `Cli::write` must produce: CR, erase line, the output with LF ->
/// CR LF, one CR LF iff the output is non-empty and does not end with LF, the prompt,
/// the line, and one cursor-backward per scalar to the right of the editor's cursor.
fn write_transcript(pre: &Pre, out: &str) -> ([u8; TR], usize) {
    let mut e = [0u8; TR];
    let mut l = 0usize;
    let head = b"\r\x1b[2K";
    let mut i = 0;
    while i < head.len() {
        e[l] = head[i];
        l += 1;
        i += 1;
    }
    let ob = out.as_bytes();
    let mut i = 0;
    while i < ob.len() {
        if ob[i] == b'\n' {
            e[l] = b'\r';
            l += 1;
        }
        e[l] = ob[i];
        l += 1;
        i += 1;
    }
    if ob.len() > 0 && ob[ob.len() - 1] != b'\n' {
        e[l] = b'\r';
        e[l + 1] = b'\n';
        l += 2;
    }
    let pb = PROMPTS[pre.prompt].as_bytes();
    let mut i = 0;
    while i < 4 {
        if i < pb.len() {
            e[l] = pb[i];
            l += 1;
        }
        i += 1;
    }
    let mut i = 0;
    while i < N {
        if i < pre.valid {
            e[l] = pre.ebuf[i];
            l += 1;
        }
        i += 1;
    }
    let mut k = 0;
    while k < N {
        if pre.cursor + k < pre.count {
            e[l] = 0x1b;
            e[l + 1] = b'[';
            e[l + 2] = b'D';
            l += 3;
        }
        k += 1;
    }
    (e, l)
}

/// Cli::write while a line is being edited, part 1 (real code): the line and its
/// cursor are intact and the sink receives exactly `write_transcript`, flushed.
/// Part 2 (`term_redraw_lemma`) shows that this transcript, on the terminal, leaves
/// prompt + line displayed below the output with the cursor at the editor's cursor.
/// (With the terminal emulator as the sink of the real call the query ran out of
/// 24 GB even for a constant line length and prompt.)
fn show_cli_write_body(valid: usize, prompt: usize) {
    show_cli_write_with(valid, prompt, None);
}

/// `fixed_out`: Some(k) pins the output text to OUTS[k] (quick tier)
fn show_cli_write_with(valid: usize, prompt: usize, fixed_out: Option<usize>) {
    let pre = any_pre_fixed(valid, prompt);
    kani::assume(printable(&pre));
    let which: usize = match fixed_out {
        Some(k) => k,
        None => kani::any(),
    };
    kani::assume(which < 5);
    let out = OUTS[which];
    let (e, el) = write_transcript(&pre, out);
    let mut cli = build(&pre, crate::sinks::ExpectSink::<TR>::new(e, el));
    let r = cli.write(|w| w.write_str(out));
    assert!(r.is_ok());
    let p = post(&cli);
    assert!(line_eq(&p, &line_of(&pre)), "C13: writing leaves the line and the cursor intact");
    let t = cli.__verif_writer();
    assert!(t.ok(), "C06/C13: output, line break, prompt, line and cursor restoration, in this order");
    assert!(t.pending == 0, "C15: flushed");
    kani::cover!(valid < 1 || (pre.cursor < pre.count && which == 1), "cursor inside the line while writing");
    kani::cover!(fixed_out.is_some() || which == 0, "empty write");
    kani::cover!(fixed_out.is_some() || which == 4, "text after a line feed");
}

/// Quick-tier instance: 2-byte line, prompt `$ `, output `x` (line bytes and cursor symbolic).
#[kani::proof]
#[kani::unwind(9)]
fn show_cli_write_quick() {
    show_cli_write_with(2, 1, Some(1));
}

/// Part 2: feeding `write_transcript` to the terminal from ANY terminal state shows
/// prompt + line on a fresh row below the output, cursor at the editor's cursor, and
/// exactly the expected number of line feeds.
#[kani::proof]
#[kani::unwind(41)]
fn term_redraw_lemma() {
    let pre = any_pre();
    kani::assume(printable(&pre));
    let which: usize = kani::any();
    kani::assume(which < 5);
    let out = OUTS[which];
    let (e, el) = write_transcript(&pre, out);
    let mut t = Term::blank();
    // arbitrary earlier content of the row and cursor column
    let cells: [u32; TW] = kani::any();
    let col: usize = kani::any();
    kani::assume(col < TW);
    t.cells = cells;
    t.col = col;
    use embedded_io::Write;
    t.write(&e[..el]).unwrap();
    assert!(shows(&t, pre.prompt, &pre.ebuf, pre.valid, pre.cursor), "C06: the transcript displays prompt + line, cursor included");
    let ob = out.as_bytes();
    let mut lfs = 0usize;
    let mut i = 0;
    while i < 3 {
        if i < ob.len() && ob[i] == b'\n' {
            lfs += 1;
        }
        i += 1;
    }
    let want_rows = if ob.len() == 0 { 0 } else { lfs + if ob[ob.len() - 1] == b'\n' { 0 } else { 1 } };
    assert!(t.rows == want_rows, "C13: one line break added iff the output is non-empty and does not end with one");
    kani::cover!(pre.cursor < pre.count && pre.valid > pre.count, "cursor left of a multi-byte scalar");
    kani::cover!(which == 2 && pre.prompt == 2);
}

/// Cli::set_prompt while a line is being edited.
#[kani::proof]
#[kani::unwind(9)]
fn show_set_prompt() {
    let pre = any_pre();
    kani::assume(printable(&pre));
    let new_prompt: usize = kani::any();
    kani::assume(new_prompt < 3);
    let mut cli = build(&pre, term_showing(&pre));
    let r = cli.set_prompt(PROMPTS[new_prompt]);
    assert!(r.is_ok());
    let p = post(&cli);
    assert!(line_eq(&p, &line_of(&pre)));
    let t = cli.__verif_writer();
    assert!(t.rows == 0);
    assert!(shows(t, new_prompt, &p.ebuf, p.valid, p.cursor), "C06: new prompt + line, cursor included");
    assert!(t.pending == 0);
    kani::cover!(pre.cursor < pre.count && new_prompt != pre.prompt, "cursor inside, prompt of different length");
    kani::cover!(PROMPT_CHARS[new_prompt] < PROMPT_CHARS[pre.prompt] && pre.valid == N, "shorter prompt, full line");
}

/// Reachability twin.
#[kani::proof]
#[kani::unwind(9)]
fn show_twin() {
    let pre = any_pre();
    kani::assume(printable(&pre));
    let mut cli = build(&pre, term_showing(&pre));
    let (r, _) = press(&mut cli, Key::Backspace);
    let p = post(&cli);
    assert!(p.valid == pre.valid, "twin: must be reported as FAILED");
}
