//! C06 / C13 at Cli level: the terminal (ECMA-48 subset emulator as the sink)
//! always shows prompt + line with the cursor at the editor's cursor.
//!
//! Coupling invariant Show(cli, term): the current row is prompt ++ line (then
//! blanks) and the column is |prompt| + cursor.  One step per key: assume CliInv
//! and Show (the terminal is *constructed* from the symbolic editor state), run
//! the key, assert Show again.
use crate::cli_common::*;
use crate::cli_steps::*;
use crate::inv::*;
use crate::model::args::decode_at;
use crate::term::*;
use core::convert::Infallible;
use embedded_cli::__verif::*;
use embedded_cli::cli::CliHandle;
use embedded_cli::command::RawCommand;

pub const TW: usize = N + 5;
pub type Term = TermSink<TW>;

const PROMPT_CELLS: [[u32; 3]; 3] = [[0, 0, 0], ['$' as u32, ' ' as u32, 0], [0xe9, '>' as u32, ' ' as u32]];

/// cells of `prompt ++ line`
fn row_of(prompt: usize, buf: &[u8; N], valid: usize) -> ([u32; TW], usize) {
    let mut cells = [BLANK; TW];
    let pl = PROMPT_CHARS[prompt];
    let mut i = 0;
    while i < 3 {
        if i < pl {
            cells[i] = PROMPT_CELLS[prompt][i];
        }
        i += 1;
    }
    let mut col = pl;
    let mut p = 0usize;
    let mut k = 0;
    while k < N {
        if p < valid {
            let (c, l) = decode_at(buf, p);
            cells[col] = c;
            col += 1;
            p += l;
        }
        k += 1;
    }
    (cells, col)
}

pub fn term_showing(pre: &Pre) -> Term {
    let mut t = Term::blank();
    let (cells, _) = row_of(pre.prompt, &pre.ebuf, pre.valid);
    t.cells = cells;
    t.col = PROMPT_CHARS[pre.prompt] + pre.cursor;
    t
}

pub fn shows(t: &Term, prompt: usize, buf: &[u8; N], valid: usize, cursor: usize) -> bool {
    if t.bad || !t.settled() {
        return false;
    }
    let (cells, _) = row_of(prompt, buf, valid);
    let mut i = 0;
    while i < TW {
        if t.cells[i] != cells[i] {
            return false;
        }
        i += 1;
    }
    t.col == PROMPT_CHARS[prompt] + cursor
}

/// display-width-1 printable text only: no DEL in the line
fn printable(pre: &Pre) -> bool {
    let mut i = 0;
    while i < N {
        if i < pre.valid && pre.ebuf[i] == 0x7f {
            return false;
        }
        i += 1;
    }
    true
}

fn printable_history(pre: &Pre) -> bool {
    let mut i = 0;
    while i < H {
        if i < pre.hused && pre.hbuf[i] == 0x7f {
            return false;
        }
        i += 1;
    }
    true
}

fn show_key_body(key: Key) {
    let pre = any_pre();
    kani::assume(printable(&pre) && printable_history(&pre));
    let mut cli = build(&pre, term_showing(&pre));
    let (r, _seen) = press(&mut cli, key);
    assert!(r.is_ok());
    let p = post(&cli);
    let t = cli.__verif_writer();
    assert!(t.rows == 0, "no line feed for an editing key");
    assert!(shows(t, pre.prompt, &p.ebuf, p.valid, p.cursor), "C06: terminal shows prompt + line, cursor included");
    assert!(t.pending == 0);
    let changed = !line_eq(&p, &line_of(&pre));
    kani::cover!(changed);
    kani::cover!(!changed);
}

macro_rules! show_key {
    ($name:ident, $key:expr) => {
        #[kani::proof]
        #[kani::unwind(9)]
        fn $name() {
            show_key_body($key);
        }
    };
}
show_key!(show_backspace, Key::Backspace);
show_key!(show_forward, Key::Forward);
show_key!(show_back, Key::Back);
show_key!(show_up, Key::Up);
show_key!(show_down, Key::Down);
show_key!(show_tab, Key::Tab);

fn show_char_body(l: usize) {
    let pre = any_pre();
    kani::assume(printable(&pre));
    let (enc, c) = any_char_of_len(l);
    kani::assume(c as u32 != 0x7f);
    let mut cli = build(&pre, term_showing(&pre));
    let r = cli.__verif_on_text(unsafe { core::str::from_utf8_unchecked(&enc[..l]) });
    assert!(r.is_ok());
    let p = post(&cli);
    let t = cli.__verif_writer();
    assert!(t.rows == 0);
    assert!(shows(t, pre.prompt, &p.ebuf, p.valid, p.cursor), "C06: terminal shows prompt + line, cursor included");
    let accepted = pre.valid + l <= N;
    kani::cover!(N < l + 1 || (accepted && pre.cursor < pre.count), "inserted inside");
    kani::cover!(N < l || (accepted && pre.cursor == pre.count), "appended");
    kani::cover!(N == 0 || !accepted, "rejected");
}

macro_rules! show_char {
    ($name:ident, $l:expr) => {
        #[kani::proof]
        #[kani::unwind(9)]
        fn $name() {
            show_char_body($l);
        }
    };
}
show_char!(show_char1, 1);
show_char!(show_char2, 2);
show_char!(show_char3, 3);

/// Enter with a handler that (mode 0) writes nothing, (1) writes symbolic text,
/// (2) changes the prompt: afterwards a fresh row shows the (new) prompt with the
/// cursor behind it; the submitted line stays on its own row; output sits between.
fn show_enter_body(valid: usize) {
    let pre = any_pre_valid(valid);
    kani::assume(printable(&pre));
    let parsed = parse_line::<N, N1>(&pre.ebuf, pre.valid);
    kani::assume(!parsed.open && !parsed.help_open);
    let mode: u8 = kani::any();
    kani::assume(mode < 3);
    let new_prompt: usize = kani::any();
    kani::assume(new_prompt < 3);
    // handler output: <= 2 bytes over {x, LF}
    let out: [u8; 2] = kani::any();
    let ol: usize = kani::any();
    kani::assume(ol <= 2 && (out[0] == b'x' || out[0] == b'\n') && (out[1] == b'x' || out[1] == b'\n'));
    let mut cli = build(&pre, term_showing(&pre));
    let mut calls = 0usize;
    let r = {
        let mut p = RawCommand::processor(|h: &mut CliHandle<'_, Term, Infallible>, _c: RawCommand<'_>| {
            calls += 1;
            if mode == 1 {
                h.writer().write_str(unsafe { core::str::from_utf8_unchecked(&out[..ol]) })?;
            }
            if mode == 2 {
                h.set_prompt(PROMPTS[new_prompt]);
            }
            Ok(())
        });
        cli.__verif_on_control::<RawCommand<'_>, _>(ControlInput::Enter, &mut p)
    };
    assert!(r.is_ok());
    let p = post(&cli);
    let t = cli.__verif_writer();
    let prompt_now = if calls == 1 && mode == 2 { new_prompt } else { pre.prompt };
    assert!(shows(t, prompt_now, &p.ebuf, p.valid, p.cursor), "C06/C13: fresh row shows the prompt, cursor behind it");
    assert!(p.valid == 0);
    assert!(cli.__verif_prompt().as_ptr() == PROMPTS[prompt_now].as_ptr());
    // rows: one for the submitted line, plus the rows of the output
    let wrote = calls == 1 && mode == 1 && ol > 0;
    if !wrote && !(cfg!(feature = "help") && parsed.help_shaped) {
        assert!(t.rows == 1, "C13: exactly one line break when nothing was written");
        // the submitted line is still on the previous row
        let (cells, _) = row_of(pre.prompt, &pre.ebuf, pre.valid);
        let mut i = 0;
        while i < TW {
            assert!(t.prev[i] == cells[i]);
            i += 1;
        }
    }
    if wrote {
        // rows = 1 (submitted line) + number of LF in the text + 1 if the text does not end with LF
        let mut lfs = 0usize;
        let mut i = 0;
        while i < 2 {
            if i < ol && out[i] == b'\n' {
                lfs += 1;
            }
            i += 1;
        }
        let ends_lf = out[ol - 1] == b'\n';
        assert!(t.rows == 1 + lfs + if ends_lf { 0 } else { 1 }, "C13: one line break added iff the output does not end with one");
    }
    kani::cover!(valid < 1 || (wrote && ol == 2 && out[0] == b'x' && out[1] == b'\n'), "output ending with LF");
    kani::cover!(valid < 1 || (wrote && ol == 1 && out[0] == b'x'), "output without LF");
    kani::cover!(valid < 1 || (calls == 1 && mode == 2 && new_prompt != pre.prompt), "prompt changed by the handler");
    kani::cover!(valid < 1 || calls == 0, "blank line");
    kani::cover!(valid > 0 || calls == 0, "empty line");
}

macro_rules! show_len {
    ($e:ident, $w:ident, $v:expr) => {
        #[kani::proof]
        #[kani::unwind(9)]
        fn $e() {
            show_enter_body($v);
        }
        #[kani::proof]
        #[kani::unwind(9)]
        fn $w() {
            show_cli_write_body($v);
        }
    };
}
show_len!(show_enter_v0, show_cli_write_v0, 0);
show_len!(show_enter_v1, show_cli_write_v1, 1);
show_len!(show_enter_v2, show_cli_write_v2, 2);
show_len!(show_enter_v3, show_cli_write_v3, 3);

/// Cli::write(|w| w.write_str(t)) while a line is being edited: the line and its
/// cursor are intact and redisplayed below the output.
fn show_cli_write_body(valid: usize) {
    let pre = any_pre_valid(valid);
    kani::assume(printable(&pre));
    let out: [u8; 2] = kani::any();
    let ol: usize = kani::any();
    kani::assume(ol <= 2 && (out[0] == b'x' || out[0] == b'\n') && (out[1] == b'x' || out[1] == b'\n'));
    let mut cli = build(&pre, term_showing(&pre));
    let r = cli.write(|w| w.write_str(unsafe { core::str::from_utf8_unchecked(&out[..ol]) }));
    assert!(r.is_ok());
    let p = post(&cli);
    assert!(line_eq(&p, &line_of(&pre)), "C13: writing leaves the line and the cursor intact");
    let t = cli.__verif_writer();
    assert!(shows(t, pre.prompt, &p.ebuf, p.valid, p.cursor), "C06/C13: prompt + line redisplayed below the output, cursor included");
    assert!(t.pending == 0);
    let mut lfs = 0usize;
    let mut i = 0;
    while i < 2 {
        if i < ol && out[i] == b'\n' {
            lfs += 1;
        }
        i += 1;
    }
    let want_rows = if ol == 0 { 0 } else { lfs + if out[ol - 1] == b'\n' { 0 } else { 1 } };
    assert!(t.rows == want_rows, "C13: one line break added iff the output is non-empty and does not end with one");
    kani::cover!(valid < 1 || (pre.cursor < pre.count && ol > 0), "cursor inside the line while writing");
    kani::cover!(ol == 0, "empty write");
}

/// Cli::set_prompt while a line is being edited.
#[kani::proof]
#[kani::unwind(9)]
fn show_set_prompt() {
    let pre = any_pre();
    kani::assume(printable(&pre));
    let new_prompt: usize = kani::any();
    kani::assume(new_prompt < 3);
    let mut cli = build(&pre, term_showing(&pre));
    let r = cli.set_prompt(PROMPTS[new_prompt]);
    assert!(r.is_ok());
    let p = post(&cli);
    assert!(line_eq(&p, &line_of(&pre)));
    let t = cli.__verif_writer();
    assert!(t.rows == 0);
    assert!(shows(t, new_prompt, &p.ebuf, p.valid, p.cursor), "C06: new prompt + line, cursor included");
    assert!(t.pending == 0);
    kani::cover!(pre.cursor < pre.count && new_prompt != pre.prompt, "cursor inside, prompt of different length");
    kani::cover!(PROMPT_CHARS[new_prompt] < PROMPT_CHARS[pre.prompt] && pre.valid == N, "shorter prompt, full line");
}

/// Reachability twin.
#[kani::proof]
#[kani::unwind(9)]
fn show_twin() {
    let pre = any_pre();
    kani::assume(printable(&pre));
    let mut cli = build(&pre, term_showing(&pre));
    let (r, _) = press(&mut cli, Key::Backspace);
    let p = post(&cli);
    assert!(p.valid == pre.valid, "twin: must be reported as FAILED");
}
