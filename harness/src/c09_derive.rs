//! C09 — derived parsers accept and reject exactly what the declaration says.
//!
//! The declarations below are expanded by /repo's derive macros at every run.  For
//! each variant, every argument line within the bound is parsed by the derived
//! `FromRaw::parse` and by the declaration interpreter (`model::decl`), and the two
//! outcomes are compared field by field (strings by position in the raw buffer).
use crate::inv::*;
use crate::model::args as ma;
use crate::model::decl::*;
use embedded_cli::__verif::*;
use embedded_cli::arguments::ArgList;
use embedded_cli::command::RawCommand;
use embedded_cli::service::{FromRaw, ParseError};
use embedded_cli::{Command, CommandGroup};

#[derive(Command)]
pub enum P1<'a> {
    Exit,
    Led {
        id: u8,
        #[arg(short = 'l', long = "lv")]
        level: Option<u8>,
        #[arg(short, long = "loud")]
        verbose: bool,
    },
    #[command(name = "rd")]
    Read {
        file: &'a str,
        #[arg(default_value = "7")]
        n: i8,
    },
    Cfg {
        #[arg(long = "n", default_value_t = 3)]
        num: u8,
        #[arg(short = 'k', value_name = "KY")]
        key: &'a str,
        #[arg(short = 'Ю')]
        yu: bool,
    },
}

#[derive(Command)]
pub enum P2 {
    Base {
        #[arg(short)]
        x: bool,
        #[command(subcommand)]
        cmd: P3,
    },
    #[command(name = "t", subcommand)]
    Tup(P3),
    Opt {
        #[command(subcommand)]
        cmd: Option<P3>,
    },
}

/// more value types: char, an optional flag (Option<bool>), u16 with a typed default
#[derive(Command)]
pub enum P4 {
    Ty {
        #[arg(short = 'c')]
        ch: Option<char>,
        #[arg(short = 'b')]
        on: Option<bool>,
        #[arg(short = 'w', default_value_t = 300)]
        wide: u16,
    },
}

#[derive(Command)]
pub enum P3 {
    Ping,
    #[command(name = "exit")]
    Shadowed,
}

#[derive(CommandGroup)]
pub enum G<'a> {
    First(P1<'a>),
    #[group(hidden)]
    Hidden(P3),
    Rest(RawCommand<'a>),
}

// ----------------------------------------------------------------------------- declaration tables

const F_LED: [Field; NF] = [
    Field { kind: POS, ty: T_U8, ..NO_FIELD },
    Field { kind: OPT, short: 'l' as u32, long: b"lv", ty: T_U8, optional: true, ..NO_FIELD },
    // generated short name comes from the FIELD name (v), the long name is explicit
    Field { kind: FLAG, short: 'v' as u32, long: b"loud", ty: T_BOOL, ..NO_FIELD },
];
const U_LED: [&str; NF] = ["<ID>", "", ""];

const F_READ: [Field; NF] = [
    Field { kind: POS, ty: T_STR, ..NO_FIELD },
    Field { kind: POS, ty: T_I8, has_default: true, default_int: 7, ..NO_FIELD },
    NO_FIELD,
];
const U_READ: [&str; NF] = ["<FILE>", "", ""];

const F_CFG: [Field; NF] = [
    Field { kind: OPT, long: b"n", ty: T_U8, has_default: true, default_int: 3, ..NO_FIELD },
    Field { kind: OPT, short: 'k' as u32, ty: T_STR, ..NO_FIELD },
    Field { kind: FLAG, short: 'Ю' as u32, ty: T_BOOL, ..NO_FIELD },
];
const U_CFG: [&str; NF] = ["", "-k <KY>", ""];

const F_TY: [Field; NF] = [
    Field { kind: OPT, short: 'c' as u32, ty: T_CHAR, optional: true, ..NO_FIELD },
    // a bool field is a flag even when declared as Option<bool>: given -> Some(true), absent -> None
    Field { kind: FLAG, short: 'b' as u32, ty: T_BOOL, optional: true, ..NO_FIELD },
    Field { kind: OPT, short: 'w' as u32, ty: T_U16, has_default: true, default_int: 300, ..NO_FIELD },
];

const F_NONE: [Field; NF] = [NO_FIELD, NO_FIELD, NO_FIELD];
const U_NONE: [&str; NF] = ["", "", ""];

// ----------------------------------------------------------------------------- projection

#[cfg(not(vp_thorough))]
const L: usize = 5;
#[cfg(vp_thorough)]
const L: usize = 6;
const L1: usize = L + 1;

fn pos(s: &str, base: usize) -> (usize, usize) {
    if s.len() == 0 {
        (0, 0)
    } else {
        (s.as_ptr() as usize - base, s.len())
    }
}

fn ty_of(expected: &str) -> u8 {
    let e = expected.as_bytes();
    if e.len() == 2 && e[0] == b'u' && e[1] == b'8' {
        T_U8
    } else if e.len() == 2 && e[0] == b'i' && e[1] == b'8' {
        T_I8
    } else if e.len() == 3 && e[0] == b'u' && e[1] == b'1' && e[2] == b'6' {
        T_U16
    } else if e.len() == 4 && e[0] == b'c' && e[1] == b'h' {
        T_CHAR
    } else if e.len() == 4 && e[0] == b'b' && e[1] == b'o' {
        T_BOOLV
    } else {
        99
    }
}

/// index of the field whose usage name is `name` (compared on length and the
/// bytes that tell the corpus' usage names apart; no loop, so that the unwind
/// bound does not have to cover string comparison)
fn usage_index(name: &str, usage: &[&str; NF]) -> u8 {
    let nb = name.as_bytes();
    let mut f = 0;
    while f < NF {
        let ub = usage[f].as_bytes();
        if ub.len() > 1 && ub.len() == nb.len() && ub[0] == nb[0] && ub[1] == nb[1] && ub[ub.len() - 2] == nb[nb.len() - 2] {
            return f as u8;
        }
        f += 1;
    }
    if nb.len() == 9 && nb[0] == b'<' && nb[1] == b'C' {
        return NF as u8; // <COMMAND>
    }
    98
}

fn project_err(e: ParseError<'_>, base: usize, usage: &[&str; NF]) -> Out {
    let mut o = blank();
    match e {
        ParseError::UnknownCommand => o.kind = E_UNKNOWN_COMMAND,
        ParseError::UnexpectedArgument { value } => {
            o.kind = E_UNEXPECTED_ARG;
            let (a, b) = pos(value, base);
            o.off = a;
            o.len = b;
        }
        ParseError::UnexpectedLongOption { name } => {
            o.kind = E_UNEXPECTED_LONG;
            let (a, b) = pos(name, base);
            o.off = a;
            o.len = b;
        }
        ParseError::UnexpectedShortOption { name } => {
            o.kind = E_UNEXPECTED_SHORT;
            o.scalar = name as u32;
        }
        ParseError::ParseValueError { value, expected } => {
            o.kind = E_PARSE_VALUE;
            let (a, b) = pos(value, base);
            o.off = a;
            o.len = b;
            o.which = ty_of(expected);
        }
        ParseError::MissingRequiredArgument { name } => {
            o.kind = E_MISSING;
            o.which = usage_index(name, usage);
        }
        _ => o.kind = 97,
    }
    o
}

/// which variant (or 255), plus the fields in the flat record
fn project_p1(r: Result<P1<'_>, ParseError<'_>>, base: usize, usage: &[&str; NF]) -> (u8, Out) {
    match r {
        Err(e) => (255, project_err(e, base, usage)),
        Ok(c) => {
            let mut o = blank();
            match c {
                P1::Exit => (0, o),
                P1::Led { id, level, verbose } => {
                    o.present[0] = true;
                    o.ival[0] = id as i32;
                    o.present[1] = level.is_some();
                    o.ival[1] = level.unwrap_or(0) as i32;
                    o.present[2] = verbose;
                    o.ival[2] = verbose as i32;
                    (1, o)
                }
                P1::Read { file, n } => {
                    o.present[0] = true;
                    let (a, b) = pos(file, base);
                    o.soff[0] = a;
                    o.slen[0] = b;
                    o.present[1] = true;
                    o.ival[1] = n as i32;
                    (2, o)
                }
                P1::Cfg { num, key, yu } => {
                    o.present[0] = true;
                    o.ival[0] = num as i32;
                    o.present[1] = true;
                    let (a, b) = pos(key, base);
                    o.soff[1] = a;
                    o.slen[1] = b;
                    o.present[2] = yu;
                    o.ival[2] = yu as i32;
                    (3, o)
                }
            }
        }
    }
}

fn same_out(fields: &[Field; NF], nf: usize, want: &Out, got: &Out) -> bool {
    if want.kind != got.kind {
        return false;
    }
    match want.kind {
        E_UNEXPECTED_ARG | E_UNEXPECTED_LONG => want.len == got.len && (want.len == 0 || want.off == got.off),
        E_UNEXPECTED_SHORT => want.scalar == got.scalar,
        E_PARSE_VALUE => want.len == got.len && (want.len == 0 || want.off == got.off) && want.which == got.which,
        E_MISSING => want.which == got.which,
        OK => {
            let mut f = 0;
            while f < NF {
                if f < nf {
                    if want.present[f] != got.present[f] {
                        return false;
                    }
                    if want.present[f] {
                        if fields[f].ty == T_STR {
                            if want.slen[f] != got.slen[f] {
                                return false;
                            }
                            if !want.is_default[f] && want.slen[f] > 0 && want.soff[f] != got.soff[f] {
                                return false;
                            }
                        } else if want.ival[f] != got.ival[f] {
                            return false;
                        }
                    }
                }
                f += 1;
            }
            true
        }
        _ => true,
    }
}

struct Input {
    raw: [u8; L],
    n: usize,
    is_empty: bool,
    items: ma::Items<L1>,
    nitems: usize,
}

/// every token buffer of exactly `n` bytes (`n` is a constant per harness instance,
/// which lets the loops over the buffer fold); the empty list is part of n = 0
fn any_args(n: usize) -> Input {
    let raw: [u8; L] = kani::any();
    kani::assume(n <= L);
    kani::assume(wf_utf8(&raw, n));
    let is_empty: bool = kani::any();
    kani::assume(!is_empty || n == 0);
    let items: ma::Items<L1> = ma::classify::<L, L1>(&raw, n);
    let nitems = if is_empty { 0 } else { items.n };
    Input {
        raw,
        n,
        is_empty,
        items,
        nitems,
    }
}

fn p1_variant_body(n: usize, name: &'static str, variant: u8, fields: &[Field; NF], nf: usize, usage: &[&str; NF]) {
    let inp = any_args(n);
    let want = spec_parse::<L, L1>(fields, nf, false, &inp.raw, &inp.items, inp.nitems);
    kani::assume(!want.open);
    let text = unsafe { core::str::from_utf8_unchecked(&inp.raw[..inp.n]) };
    let base = text.as_ptr() as usize;
    let cmd = RawCommand::new(name, ArgList::new(Tokens::from_raw(text, inp.is_empty)));
    let (v, got) = project_p1(P1::parse(cmd), base, usage);
    assert!(same_out(fields, nf, &want, &got), "C09: derived parser and declaration agree");
    if want.kind == OK {
        assert!(v == variant, "C09: the variant whose name matches");
    }
    kani::cover!(n < 5 || (want.kind == OK && inp.nitems >= 2), "accepted with several items");
    kani::cover!(n < 1 || want.kind == E_PARSE_VALUE || variant == 3, "unparsable value");
    kani::cover!(n > 0 || want.kind == E_MISSING, "missing required argument");
    kani::cover!(n < 2 || want.kind == E_UNEXPECTED_SHORT || want.kind == E_UNEXPECTED_LONG, "unexpected option");
    kani::cover!(n < 4 || want.kind == E_UNEXPECTED_ARG, "unexpected argument");
}

fn p1_exit_body(n: usize) {
    // unit variant: no fields, so every argument is unexpected
    let inp = any_args(n);
    let want = spec_parse::<L, L1>(&F_NONE, 0, false, &inp.raw, &inp.items, inp.nitems);
    let text = unsafe { core::str::from_utf8_unchecked(&inp.raw[..inp.n]) };
    let base = text.as_ptr() as usize;
    let cmd = RawCommand::new("exit", ArgList::new(Tokens::from_raw(text, inp.is_empty)));
    let (v, got) = project_p1(P1::parse(cmd), base, &U_NONE);
    assert!(same_out(&F_NONE, 0, &want, &got), "C09: derived parser and declaration agree");
    if want.kind == OK {
        assert!(v == 0);
    }
    kani::cover!(n > 0 || want.kind == OK);
    kani::cover!(n < 1 || want.kind == E_UNEXPECTED_ARG);
    kani::cover!(n < 3 || want.kind == E_UNEXPECTED_LONG);
}

macro_rules! per_len {
    ($m:ident, $n:expr) => {
        pub mod $m {
            use super::*;
            #[kani::proof]
            #[kani::unwind(9)]
            pub fn p1_exit() {
                p1_exit_body($n);
            }
            #[kani::proof]
            #[kani::unwind(9)]
            pub fn p1_led() {
                p1_variant_body($n, "led", 1, &F_LED, 3, &U_LED);
            }
            #[kani::proof]
            #[kani::unwind(9)]
            pub fn p1_read() {
                p1_variant_body($n, "rd", 2, &F_READ, 2, &U_READ);
            }
            #[kani::proof]
            #[kani::unwind(9)]
            pub fn p1_cfg() {
                p1_variant_body($n, "cfg", 3, &F_CFG, 3, &U_CFG);
            }
            #[kani::proof]
            #[kani::unwind(9)]
            pub fn p2_base() {
                p2_subcommand_body($n, 0);
            }
            #[kani::proof]
            #[kani::unwind(9)]
            pub fn p2_tup() {
                p2_subcommand_body($n, 1);
            }
            #[kani::proof]
            #[kani::unwind(9)]
            pub fn p2_opt() {
                p2_subcommand_body($n, 2);
            }
        }
    };
}
per_len!(n0, 0);
per_len!(n1, 1);
per_len!(n2, 2);
per_len!(n3, 3);
per_len!(n4, 4);
per_len!(n5, 5);
#[cfg(vp_thorough)]
per_len!(n6, 6);

fn p4_ty_body(n: usize) {
    let inp = any_args(n);
    let want = spec_parse::<L, L1>(&F_TY, 3, false, &inp.raw, &inp.items, inp.nitems);
    kani::assume(!want.open);
    let text = unsafe { core::str::from_utf8_unchecked(&inp.raw[..inp.n]) };
    let base = text.as_ptr() as usize;
    let cmd = RawCommand::new("ty", ArgList::new(Tokens::from_raw(text, inp.is_empty)));
    let got = match P4::parse(cmd) {
        Err(e) => project_err(e, base, &U_NONE),
        Ok(P4::Ty { ch, on, wide }) => {
            let mut o = blank();
            o.present[0] = ch.is_some();
            o.ival[0] = ch.unwrap_or('\0') as i32;
            o.present[1] = on.is_some();
            o.ival[1] = on.unwrap_or(false) as i32;
            o.present[2] = true;
            o.ival[2] = wide as i32;
            o
        }
    };
    assert!(same_out(&F_TY, 3, &want, &got), "C09: derived parser and declaration agree");
    kani::cover!(n < 5 || (want.kind == OK && want.present[0] && want.ival[0] > 0x7f), "multi-byte char value");
    kani::cover!(n < 2 || (want.kind == OK && want.present[1]), "optional flag given");
    kani::cover!(n < 4 || (want.kind == OK && want.ival[2] != 300), "u16 given");
    kani::cover!(n < 5 || (want.kind == E_PARSE_VALUE && want.which == T_CHAR), "two characters are not a char");
    kani::cover!(n > 0 || (want.kind == OK && want.ival[2] == 300), "typed default");
}

macro_rules! p4_len {
    ($name:ident, $n:expr) => {
        #[kani::proof]
        #[kani::unwind(9)]
        fn $name() {
            p4_ty_body($n);
        }
    };
}
p4_len!(p4_ty_n0, 0);
p4_len!(p4_ty_n3, 3);
p4_len!(p4_ty_n4, 4);
p4_len!(p4_ty_n5, 5);

/// Name dispatch of P1 (kebab-case / explicit names) and of the group G (members in
/// order, hidden member still parses, catch-all last): symbolic name, no arguments.
#[kani::proof]
#[kani::unwind(12)]
fn c09_name_dispatch() {
    let nb: [u8; 4] = kani::any();
    let nl: usize = kani::any();
    kani::assume(nl >= 1 && nl <= 4);
    kani::assume(editor_inv(&nb, 0, nl));
    let name = unsafe { core::str::from_utf8_unchecked(&nb[..nl]) };
    let is = |s: &str| -> bool {
        let b = s.as_bytes();
        if b.len() != nl {
            return false;
        }
        let mut i = 0;
        while i < 4 {
            if i < nl && b[i] != nb[i] {
                return false;
            }
            i += 1;
        }
        true
    };
    let want_p1: u8 = if is("exit") {
        0
    } else if is("led") {
        1
    } else if is("rd") {
        2
    } else if is("cfg") {
        3
    } else {
        255
    };
    let cmd = RawCommand::new(name, ArgList::new(Tokens::from_raw("", true)));
    let (v, got) = project_p1(P1::parse(cmd.clone()), 0, &U_LED);
    match want_p1 {
        0 => assert!(v == 0 && got.kind == OK),
        1 => assert!(got.kind == E_MISSING),
        2 => assert!(got.kind == E_MISSING),
        3 => assert!(got.kind == E_MISSING),
        _ => assert!(got.kind == E_UNKNOWN_COMMAND, "C09: unknown command"),
    }
    // group: first member that knows the name; `exit` is shadowed by P1; ping belongs to the hidden member
    match G::parse(cmd) {
        Ok(G::First(_)) => assert!(want_p1 == 0),
        Ok(G::Hidden(P3::Ping)) => assert!(is("ping")),
        Ok(G::Hidden(P3::Shadowed)) => assert!(false),
        Ok(G::Rest(r)) => {
            assert!(want_p1 == 255 && !is("ping"));
            assert!(r.name().as_ptr() == name.as_ptr() && r.name().len() == nl);
        }
        Err(e) => {
            assert!(want_p1 == 1 || want_p1 == 2 || want_p1 == 3, "C09: a member's own error is reported, later members are not tried");
        }
    }
    kani::cover!(want_p1 == 2);
    kani::cover!(is("ping"));
    kani::cover!(want_p1 == 255 && !is("ping"));
}

/// Sub-commands: the first plain value (after the parent's own options) names the
/// sub-command, which gets the remaining tokens.
fn p2_subcommand_body(n: usize, which: u8) {
    let inp = any_args(n);
    let fields: [Field; NF] = [
        Field { kind: FLAG, short: 'x' as u32, ty: T_BOOL, ..NO_FIELD },
        NO_FIELD,
        NO_FIELD,
    ];
    let nf = if which == 0 { 1 } else { 0 };
    let want = spec_parse::<L, L1>(&fields, nf, true, &inp.raw, &inp.items, inp.nitems);
    kani::assume(!want.open);
    // keep the sub-command line simple: its name is the last token
    kani::assume(want.kind != DELEGATED || want.which as usize + 1 == inp.nitems);
    let o = want.off;
    let is_exit = want.kind == DELEGATED && want.len == 4 && inp.raw[o] == b'e' && inp.raw[o + 1] == b'x' && inp.raw[o + 2] == b'i' && inp.raw[o + 3] == b't';
    let is_ping = want.kind == DELEGATED && want.len == 4 && inp.raw[o] == b'p' && inp.raw[o + 1] == b'i' && inp.raw[o + 2] == b'n' && inp.raw[o + 3] == b'g';
    let text = unsafe { core::str::from_utf8_unchecked(&inp.raw[..inp.n]) };
    let base = text.as_ptr() as usize;
    let name = match which {
        0 => "base",
        1 => "t",
        _ => "opt",
    };
    let cmd = RawCommand::new(name, ArgList::new(Tokens::from_raw(text, inp.is_empty)));
    let r = P2::parse(cmd);
    if want.kind == DELEGATED {
        let sub_ok = |c: &P3| -> bool {
            match c {
                P3::Ping => is_ping,
                P3::Shadowed => is_exit,
            }
        };
        match r {
            Ok(P2::Base { x, cmd }) => assert!(which == 0 && sub_ok(&cmd) && x == want.present[0], "C09: sub-command parsed from the remaining tokens"),
            Ok(P2::Tup(cmd)) => assert!(which == 1 && sub_ok(&cmd), "C09: sub-command parsed from the remaining tokens"),
            Ok(P2::Opt { cmd: Some(cmd) }) => assert!(which == 2 && sub_ok(&cmd), "C09: sub-command parsed from the remaining tokens"),
            Ok(_) => assert!(false, "C09: sub-command given"),
            Err(ParseError::UnknownCommand) => assert!(!is_exit && !is_ping, "C09: unknown sub-command"),
            Err(_) => assert!(false, "C09: no other error"),
        }
    } else if want.kind == OK {
        // no sub-command given
        match r {
            Ok(P2::Opt { cmd: None }) => assert!(which == 2, "C09: absent optional sub-command is None"),
            Err(ParseError::MissingRequiredArgument { name }) => {
                assert!(which != 2 && name.len() == 9, "C09: missing <COMMAND>");
            }
            _ => assert!(false, "C09: missing sub-command"),
        }
    } else {
        let got = match r {
            Ok(_) => blank(),
            Err(e) => project_err(e, base, &U_NONE),
        };
        assert!(same_out(&fields, nf, &want, &got), "C09: derived parser and declaration agree");
    }
    kani::cover!(n != 4 || which != 1 || is_exit, "sub-command exit");
    kani::cover!(n != 4 || which != 2 || is_ping, "sub-command ping");
    kani::cover!(n != 5 || which != 0 || want.kind == DELEGATED, "flag then a sub-command name");
    kani::cover!(n > 0 || want.kind == OK, "no sub-command");
    kani::cover!(n < 2 || want.kind == E_UNEXPECTED_SHORT, "unexpected option before the sub-command");
}

/// Sub-commands on concrete token lists (the symbolic per-length versions p2_* need
/// more than 20 GB since unit variants parse their arguments and are attempted in the
/// thorough tier only): the first plain value after the parent's own options names the
/// sub-command, which gets the remaining tokens; errors are the first offending item.
fn p2_case(name: &'static str, raw: &'static str, empty: bool, want: u8, payload: &'static str) {
    let cmd = RawCommand::new(name, ArgList::new(Tokens::from_raw(raw, empty)));
    let got: u8 = match P2::parse(cmd) {
        Ok(P2::Base { x: false, cmd: P3::Shadowed }) => 1,
        Ok(P2::Base { x: true, cmd: P3::Ping }) => 2,
        Ok(P2::Base { .. }) => 3,
        Ok(P2::Tup(P3::Ping)) => 4,
        Ok(P2::Tup(P3::Shadowed)) => 5,
        Ok(P2::Opt { cmd: None }) => 6,
        Ok(P2::Opt { cmd: Some(P3::Shadowed) }) => 7,
        Ok(P2::Opt { cmd: Some(P3::Ping) }) => 8,
        Err(ParseError::UnknownCommand) => 20,
        Err(ParseError::MissingRequiredArgument { name }) => {
            assert!(name.len() == payload.len() && name.as_bytes()[1] == payload.as_bytes()[1], "C09: usage name of the missing argument");
            21
        }
        Err(ParseError::UnexpectedShortOption { name }) => {
            assert!(name == payload.chars().next().unwrap(), "C09: the offending option");
            22
        }
        Err(ParseError::UnexpectedArgument { value }) => {
            assert!(value.len() == payload.len() && value.as_bytes()[0] == payload.as_bytes()[0], "C09: the offending argument");
            23
        }
        Err(_) => 29,
    };
    assert!(got == want, "C09: sub-command outcome as declared");
    kani::cover!(got == want);
}

macro_rules! p2_case {
    ($fn_name:ident, $name:expr, $raw:expr, $empty:expr, $want:expr, $payload:expr) => {
        #[kani::proof]
        #[kani::unwind(12)]
        fn $fn_name() {
            p2_case($name, $raw, $empty, $want, $payload);
        }
    };
}
p2_case!(p2c_base_exit, "base", "exit", false, 1, "");
p2_case!(p2c_base_flag_ping, "base", "-x\0ping", false, 2, "");
p2_case!(p2c_base_unknown, "base", "nope", false, 20, "");
p2_case!(p2c_base_missing, "base", "", true, 21, "<COMMAND>");
p2_case!(p2c_base_bad_option, "base", "-y\0ping", false, 22, "y");
p2_case!(p2c_base_sub_extra_arg, "base", "ping\0zz", false, 23, "zz");
p2_case!(p2c_tup_ping, "t", "ping", false, 4, "");
p2_case!(p2c_tup_missing, "t", "", true, 21, "<COMMAND>");
p2_case!(p2c_opt_none, "opt", "", true, 6, "");
p2_case!(p2c_opt_exit, "opt", "exit", false, 7, "");

/// Reachability twin.
#[kani::proof]
#[kani::unwind(9)]
fn c09_twin() {
    let inp = any_args(1);
    let text = unsafe { core::str::from_utf8_unchecked(&inp.raw[..inp.n]) };
    let cmd = RawCommand::new("led", ArgList::new(Tokens::from_raw(text, inp.is_empty)));
    assert!(P1::parse(cmd).is_err(), "twin: must be reported as FAILED");
}
