//! Reference automaton for the input decoder (property C04).
//!
//! Abstract state: inside a CSI sequence / directly after ESC / which terminator
//! (if any) may still be paired with the next byte.  The UTF-8 path is delegated
//! (`to_utf8`): the spec for it is the accumulator property C02.

#[derive(Clone, Copy, PartialEq, Eq, Debug)]
pub enum Ev {
    None,
    Char,
    Enter,
    Bs,
    Tab,
    Up,
    Down,
    Fwd,
    Back,
}

#[derive(Clone, Copy, PartialEq, Eq, Debug)]
pub struct S {
    pub csi: bool,
    pub esc: bool,
    /// 0: nothing to pair, 1: a CR produced Enter (a directly following LF is its
    /// second half), 2: an LF produced Enter (a directly following CR is its second half)
    pub pair: u8,
}

pub const GROUND: S = S {
    csi: false,
    esc: false,
    pair: 0,
};

/// One step: (next state, event, byte goes to the UTF-8 accumulator)
pub fn spec_step(s: S, b: u8) -> (S, Ev, bool) {
    let g = GROUND;
    let in_csi = S {
        csi: true,
        esc: false,
        pair: 0,
    };
    if s.csi {
        if b >= 0x40 && b <= 0x7e {
            let ev = match b {
                b'A' => Ev::Up,
                b'B' => Ev::Down,
                b'C' => Ev::Fwd,
                b'D' => Ev::Back,
                _ => Ev::None,
            };
            return (g, ev, false);
        }
        return (in_csi, Ev::None, false);
    }
    if s.esc && b == b'[' {
        return (in_csi, Ev::None, false);
    }
    match b {
        0x08 => (g, Ev::Bs, false),
        0x09 => (g, Ev::Tab, false),
        0x0d => {
            if s.pair == 2 {
                // second half of LF CR: consumed, cannot pair again
                (g, Ev::None, false)
            } else {
                (
                    S {
                        csi: false,
                        esc: false,
                        pair: 1,
                    },
                    Ev::Enter,
                    false,
                )
            }
        }
        0x0a => {
            if s.pair == 1 {
                (g, Ev::None, false)
            } else {
                (
                    S {
                        csi: false,
                        esc: false,
                        pair: 2,
                    },
                    Ev::Enter,
                    false,
                )
            }
        }
        0x1b => (
            S {
                csi: false,
                esc: true,
                pair: 0,
            },
            Ev::None,
            false,
        ),
        b if b >= 0x20 => (g, Ev::None, true),
        _ => (g, Ev::None, false),
    }
}

/// Abstraction of the concrete decoder fields.
pub fn alpha(csi: bool, last: u8) -> S {
    if csi {
        S {
            csi: true,
            esc: false,
            pair: 0,
        }
    } else {
        S {
            csi: false,
            esc: last == 0x1b,
            pair: if last == 0x0d {
                1
            } else if last == 0x0a {
                2
            } else {
                0
            },
        }
    }
}
