//! Reference tokenizer (property C07), written from the statement:
//! split at runs of spaces; a token that *starts* with `"` extends to the next
//! unescaped `"` (or the end of the line), may contain spaces, `\"` and `\\` stand
//! for `"` and `\`; a new token may start directly after a closing quote; `""`
//! is an empty token wherever it stands.
//!
//! Output is flat: token k is `buf[start[k]..start[k]+len[k]]`.

#[derive(Clone, Copy)]
pub struct Toks<const L: usize> {
    pub buf: [u8; L],
    pub start: [usize; L],
    pub len: [usize; L],
    pub n: usize,
    /// the line uses something the statement leaves open: inside quotes a
    /// backslash followed by a byte other than `"` or `\`, or by the end of line
    pub open: bool,
}

pub fn tokenize<const L: usize>(line: &[u8; L], n: usize) -> Toks<L> {
    let mut t = Toks {
        buf: [0u8; L],
        start: [0usize; L],
        len: [0usize; L],
        n: 0,
        open: false,
    };
    // 0 between tokens, 1 plain token, 2 quoted token, 3 quoted token after backslash
    let mut mode = 0u8;
    let mut out = 0usize;
    let mut i = 0usize;
    while i < L {
        if i < n {
            let b = line[i];
            if mode == 0 {
                if b == b'"' {
                    mode = 2;
                    t.start[t.n] = out;
                    t.len[t.n] = 0;
                    t.n += 1;
                } else if b != b' ' {
                    mode = 1;
                    t.start[t.n] = out;
                    t.len[t.n] = 1;
                    t.n += 1;
                    t.buf[out] = b;
                    out += 1;
                }
            } else if mode == 1 {
                if b == b' ' {
                    mode = 0;
                } else {
                    t.buf[out] = b;
                    out += 1;
                    t.len[t.n - 1] += 1;
                }
            } else if mode == 2 {
                if b == b'"' {
                    mode = 0;
                } else if b == b'\\' {
                    mode = 3;
                } else {
                    t.buf[out] = b;
                    out += 1;
                    t.len[t.n - 1] += 1;
                }
            } else {
                if b != b'"' && b != b'\\' {
                    t.open = true;
                }
                t.buf[out] = b;
                out += 1;
                t.len[t.n - 1] += 1;
                mode = 2;
            }
        }
        i += 1;
    }
    if mode == 3 {
        t.open = true;
    }
    t
}
