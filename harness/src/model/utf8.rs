//! Reference UTF-8 stream decoder (RFC 3629 DFA) for C02 / C04 / C17.
//!
//! State: how many continuation bytes are still needed and the admissible range
//! of the next one.  A byte that cannot continue the pending sequence abandons it
//! and is then looked at as a possible start; a byte that can start nothing is
//! dropped.

use crate::inv::lead_total;

#[derive(Clone, Copy, PartialEq, Eq, Debug)]
pub struct U {
    pub remaining: u8,
    pub lo: u8,
    pub hi: u8,
}

pub const IDLE: U = U {
    remaining: 0,
    lo: 0,
    hi: 0,
};

fn second_range(lead: u8) -> (u8, u8) {
    match lead {
        0xE0 => (0xA0, 0xBF),
        0xED => (0x80, 0x9F),
        0xF0 => (0x90, 0xBF),
        0xF4 => (0x80, 0x8F),
        _ => (0x80, 0xBF),
    }
}

/// (next state, a scalar is completed by this byte)
pub fn step(s: U, b: u8) -> (U, bool) {
    if s.remaining > 0 && b >= s.lo && b <= s.hi {
        let r = s.remaining - 1;
        if r == 0 {
            return (IDLE, true);
        }
        return (
            U {
                remaining: r,
                lo: 0x80,
                hi: 0xBF,
            },
            false,
        );
    }
    // pending sequence (if any) is abandoned; is b a start?
    if b < 0x80 {
        return (IDLE, true);
    }
    let total = lead_total(b);
    if total == 0 {
        return (IDLE, false);
    }
    let (lo, hi) = second_range(b);
    (
        U {
            remaining: total - 1,
            lo,
            hi,
        },
        false,
    )
}

/// Bytes for which the statement leaves the state change open: a byte >= 0x80
/// that can neither continue the pending sequence nor start a new one arrives in
/// the middle of a sequence.  It is dropped in any case; whether the pending
/// sequence is abandoned (what `step` does) or kept is not specified, so the
/// oracles accept both successor states.
pub fn open_case(s: U, b: u8) -> bool {
    s.remaining > 0 && !(b >= s.lo && b <= s.hi) && b >= 0x80 && lead_total(b) == 0
}

/// Abstraction of the concrete accumulator fields (meaningful under `acc_inv`).
pub fn alpha(buf: [u8; 4], expected: u8, partial: u8) -> U {
    if expected == 0 {
        return IDLE;
    }
    if partial == 1 {
        let (lo, hi) = second_range(buf[0]);
        U {
            remaining: expected,
            lo,
            hi,
        }
    } else {
        U {
            remaining: expected,
            lo: 0x80,
            hi: 0xBF,
        }
    }
}
