//! Reference history (property C10): a list of entries, oldest first, kept flat
//! as NUL-terminated strings in `buf[..used]`, plus a navigation position.
//!
//! push: reject (empty / contains NUL / len+1 > capacity) | newest-equal => no-op |
//! remove the equal older entry; evict oldest entries while the new one does not
//! fit; append.  Navigation is index arithmetic over the entry start table.

#[derive(Clone, Copy)]
pub struct Hist<const HM: usize> {
    pub buf: [u8; HM],
    pub used: usize,
}

pub struct Starts<const HM: usize> {
    pub start: [usize; HM],
    pub n: usize,
}

pub fn starts<const HM: usize>(h: &Hist<HM>) -> Starts<HM> {
    let mut s = Starts {
        start: [0usize; HM],
        n: 0,
    };
    let mut i = 0usize;
    while i < HM {
        if i < h.used && (i == 0 || h.buf[i - 1] == 0) {
            s.start[s.n] = i;
            s.n += 1;
        }
        i += 1;
    }
    s
}

/// entry k equals text?
fn entry_eq<const HM: usize>(h: &Hist<HM>, start: usize, text: &[u8], tl: usize) -> bool {
    let mut j = 0usize;
    while j < HM {
        if j < tl {
            if start + j >= h.used || h.buf[start + j] != text[j] {
                return false;
            }
        }
        j += 1;
    }
    start + tl < h.used && h.buf[start + tl] == 0
}

/// (new history, accepted)
pub fn push<const HM: usize>(h: &Hist<HM>, cap: usize, text: &[u8], tl: usize) -> (Hist<HM>, bool) {
    let mut has_nul = false;
    let mut i = 0usize;
    while i <= HM {
        if i < tl && text[i] == 0 {
            has_nul = true;
        }
        i += 1;
    }
    if has_nul || tl == 0 || tl + 1 > cap {
        return (*h, false);
    }
    let st = starts(h);
    // newest equal: nothing to do
    if st.n > 0 && entry_eq(h, st.start[st.n - 1], text, tl) {
        return (*h, true);
    }
    // copy all entries different from text
    let mut out = Hist {
        buf: [0u8; HM],
        used: 0,
    };
    let mut k = 0usize;
    while k < HM {
        if k < st.n {
            let s = st.start[k];
            if !entry_eq(h, s, text, tl) {
                let mut j = 0usize;
                let mut done = false;
                while j < HM {
                    if !done && s + j < h.used {
                        out.buf[out.used] = h.buf[s + j];
                        out.used += 1;
                        if h.buf[s + j] == 0 {
                            done = true;
                        }
                    }
                    j += 1;
                }
            }
        }
        k += 1;
    }
    // evict oldest while it does not fit
    let so = starts(&out);
    let mut drop_to = 0usize;
    let mut k = 0usize;
    while k < HM {
        if k < so.n && out.used - drop_to + tl + 1 > cap {
            drop_to = if k + 1 < so.n { so.start[k + 1] } else { out.used };
        }
        k += 1;
    }
    let mut res = Hist {
        buf: [0u8; HM],
        used: 0,
    };
    let keep = out.used - drop_to;
    let mut j = 0usize;
    while j < HM {
        if j < keep {
            res.buf[j] = out.buf[drop_to + j];
        } else if j < keep + tl {
            res.buf[j] = text[j - keep];
        }
        j += 1;
    }
    res.used = keep + tl + 1;
    (res, true)
}

/// index of the entry that starts at byte `c`
fn index_of<const HM: usize>(st: &Starts<HM>, c: usize) -> usize {
    let mut k = 0usize;
    while k < HM {
        if k < st.n && st.start[k] == c {
            return k;
        }
        k += 1;
    }
    HM
}

/// Up: -> (new cursor, Some(entry start) if an entry is shown)
pub fn older<const HM: usize>(h: &Hist<HM>, cursor: Option<usize>) -> (Option<usize>, Option<usize>) {
    let st = starts(h);
    match cursor {
        None => {
            if st.n == 0 {
                (None, None)
            } else {
                let s = st.start[st.n - 1];
                (Some(s), Some(s))
            }
        }
        Some(c) => {
            let k = index_of(&st, c);
            if k == 0 || k >= st.n {
                (cursor, None)
            } else {
                let s = st.start[k - 1];
                (Some(s), Some(s))
            }
        }
    }
}

/// Down: -> (new cursor, Some(entry start) if an entry is shown; None = past the newest)
pub fn newer<const HM: usize>(h: &Hist<HM>, cursor: Option<usize>) -> (Option<usize>, Option<usize>) {
    let st = starts(h);
    match cursor {
        None => (None, None),
        Some(c) => {
            let k = index_of(&st, c);
            if k + 1 < st.n {
                let s = st.start[k + 1];
                (Some(s), Some(s))
            } else {
                (None, None)
            }
        }
    }
}

/// length of the entry starting at `s`
pub fn entry_len<const HM: usize>(h: &Hist<HM>, s: usize) -> usize {
    let mut j = 0usize;
    while j < HM {
        if s + j >= h.used || h.buf[s + j] == 0 {
            return j;
        }
        j += 1;
    }
    j
}
