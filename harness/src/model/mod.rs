//! Reference models, written from the property statements and the README.
pub mod decoder;
pub mod utf8;
pub mod tokens;
pub mod history;
pub mod args;
pub mod decl;
