//! Reference argument classifier (property C08), written from the statement.
//! `L1` must be `L + 1` (a buffer of L bytes holds at most L + 1 tokens).
/// scalar value and encoded length at `b[i]` (input is well-formed)
pub fn decode_at(b: &[u8], i: usize) -> (u32, usize) {
    let b0 = b[i] as u32;
    if b0 < 0x80 {
        (b0, 1)
    } else if b0 < 0xE0 {
        (((b0 & 0x1F) << 6) | (b[i + 1] as u32 & 0x3F), 2)
    } else if b0 < 0xF0 {
        (((b0 & 0x0F) << 12) | ((b[i + 1] as u32 & 0x3F) << 6) | (b[i + 2] as u32 & 0x3F), 3)
    } else {
        (
            ((b0 & 0x07) << 18) | ((b[i + 1] as u32 & 0x3F) << 12) | ((b[i + 2] as u32 & 0x3F) << 6) | (b[i + 3] as u32 & 0x3F),
            4,
        )
    }
}

pub const VALUE: u8 = 0;
pub const LONG: u8 = 1;
pub const SHORT: u8 = 2;
pub const DD: u8 = 3;

/// Reference classification of the NUL separated token buffer `raw[..n]`, written
/// from the statement.  Item k: kind[k], and (off[k], len[k]) for strings or
/// scalar[k] for short options.
pub struct Items<const L: usize> {
    pub kind: [u8; L],
    pub off: [usize; L],
    pub len: [usize; L],
    pub scalar: [u32; L],
    pub n: usize,
}

pub fn classify<const L: usize, const L1: usize>(raw: &[u8; L], n: usize) -> Items<L1> {
    let mut it = Items {
        kind: [0; L1],
        off: [0; L1],
        len: [0; L1],
        scalar: [0; L1],
        n: 0,
    };
    let mut values_only = false;
    let mut start = 0usize;
    let mut i = 0usize;
    // one extra round for the token that ends at the end of the buffer
    while i <= L {
        if i <= n && (i == n || raw[i] == 0) {
            let len = i - start;
            if !values_only && len > 1 && raw[start] == b'-' {
                if raw[start + 1] == b'-' {
                    if len == 2 {
                        values_only = true;
                        it.kind[it.n] = DD;
                        it.n += 1;
                    } else {
                        it.kind[it.n] = LONG;
                        it.off[it.n] = start + 2;
                        it.len[it.n] = len - 2;
                        it.n += 1;
                    }
                } else {
                    let mut p = start + 1;
                    let mut k = 0usize;
                    while k < L {
                        if p < i {
                            let (c, l) = decode_at(raw, p);
                            it.kind[it.n] = SHORT;
                            it.scalar[it.n] = c;
                            it.n += 1;
                            p += l;
                        }
                        k += 1;
                    }
                }
            } else {
                it.kind[it.n] = VALUE;
                it.off[it.n] = start;
                it.len[it.n] = len;
                it.n += 1;
            }
            start = i + 1;
        }
        i += 1;
    }
    it
}

