//! Declaration interpreter (property C09): what a derived parser must do, computed
//! from a declarative table of the variant's fields.  Flat on purpose: integers,
//! fixed arrays, strings as (offset, length) into the raw argument buffer.
use crate::model::args as ma;

pub const POS: u8 = 0;
pub const OPT: u8 = 1;
pub const FLAG: u8 = 2;

pub const T_U8: u8 = 0;
pub const T_STR: u8 = 1;
pub const T_BOOL: u8 = 2;
pub const T_I8: u8 = 3;
pub const T_CHAR: u8 = 4;
pub const T_U16: u8 = 5;
/// bool given as a value (`Option<bool>` option), as opposed to a flag
pub const T_BOOLV: u8 = 6;

#[derive(Clone, Copy)]
pub struct Field {
    pub kind: u8,
    /// short option scalar (0 = none)
    pub short: u32,
    /// long option name ("" = none)
    pub long: &'static [u8],
    pub ty: u8,
    /// declared as Option<T>
    pub optional: bool,
    /// has default_value / default_value_t (value below; for strings the literal)
    pub has_default: bool,
    pub default_int: i32,
    pub default_str: &'static [u8],
}

pub const NO_FIELD: Field = Field {
    kind: POS,
    short: 0,
    long: b"",
    ty: T_U8,
    optional: false,
    has_default: false,
    default_int: 0,
    default_str: b"",
};

// outcome kinds
pub const OK: u8 = 0;
pub const E_UNKNOWN_COMMAND: u8 = 1;
pub const E_UNEXPECTED_ARG: u8 = 2;
pub const E_UNEXPECTED_LONG: u8 = 3;
pub const E_UNEXPECTED_SHORT: u8 = 4;
pub const E_PARSE_VALUE: u8 = 5;
pub const E_MISSING: u8 = 6;
/// the remaining tokens are handed to a sub-command parser, starting at item `item`
pub const DELEGATED: u8 = 7;

pub const NF: usize = 3;

#[derive(Clone, Copy)]
pub struct Out {
    pub kind: u8,
    /// error payload / delegated name: string as (offset, len) into the raw buffer
    pub off: usize,
    pub len: usize,
    pub scalar: u32,
    /// expected type of an unparsable value, or index of the missing field
    pub which: u8,
    /// per field: present (Some / given), integer value, string (offset,len) or default literal
    pub present: [bool; NF],
    pub ival: [i32; NF],
    pub soff: [usize; NF],
    pub slen: [usize; NF],
    pub is_default: [bool; NF],
    /// the input uses something the statement leaves open (see `spec_parse`)
    pub open: bool,
}

pub fn blank() -> Out {
    Out {
        kind: OK,
        off: 0,
        len: 0,
        scalar: 0,
        which: 0,
        present: [false; NF],
        ival: [0; NF],
        soff: [0; NF],
        slen: [0; NF],
        is_default: [false; NF],
        open: false,
    }
}

/// canonical decimal parser of u8 / i8 (what `str::parse` accepts): optional sign
/// ('+' for both, '-' for signed), at least one digit, no other characters, in range
pub fn parse_int<const L: usize>(raw: &[u8; L], off: usize, len: usize, signed: bool) -> Option<i32> {
    parse_int_in::<L>(raw, off, len, signed, if signed { -128 } else { 0 }, if signed { 127 } else { 255 })
}

/// scalar value of a string that is exactly one well-formed scalar
pub fn parse_char<const L: usize>(raw: &[u8; L], off: usize, len: usize) -> Option<i32> {
    if len == 0 || len > 4 {
        return None;
    }
    let (c, l) = crate::model::args::decode_at(raw, off);
    if l == len {
        Some(c as i32)
    } else {
        None
    }
}

pub fn parse_bool<const L: usize>(raw: &[u8; L], off: usize, len: usize) -> Option<i32> {
    if len == 4 && raw[off] == b't' && raw[off + 1] == b'r' && raw[off + 2] == b'u' && raw[off + 3] == b'e' {
        Some(1)
    } else if len == 5 && raw[off] == b'f' && raw[off + 1] == b'a' && raw[off + 2] == b'l' && raw[off + 3] == b's' && raw[off + 4] == b'e' {
        Some(0)
    } else {
        None
    }
}

pub fn parse_int_in<const L: usize>(raw: &[u8; L], off: usize, len: usize, signed: bool, min: i32, max: i32) -> Option<i32> {
    if len == 0 {
        return None;
    }
    let mut i = 0usize;
    let mut neg = false;
    if raw[off] == b'+' {
        i = 1;
    } else if raw[off] == b'-' {
        // for unsigned types "-0" is rejected too
        if !signed {
            return None;
        }
        neg = true;
        i = 1;
    }
    if i == len {
        return None;
    }
    let mut v: i32 = 0;
    let mut k = 0usize;
    while k < L {
        if i + k < len {
            let d = raw[off + i + k];
            if d < b'0' || d > b'9' {
                return None;
            }
            v = v * 10 + (d - b'0') as i32;
            if v > 1_000_000 {
                return None;
            }
        }
        k += 1;
    }
    if neg {
        v = -v;
    }
    if v < min || v > max {
        return None;
    }
    Some(v)
}

fn long_matches<const L: usize>(raw: &[u8; L], off: usize, len: usize, name: &[u8]) -> bool {
    if name.len() == 0 || name.len() != len {
        return false;
    }
    let mut i = 0;
    while i < L {
        if i < len && raw[off + i] != name[i] {
            return false;
        }
        i += 1;
    }
    true
}

/// Parse one value for field `f`; on failure fills the error outcome.
fn set_value<const L: usize>(out: &mut Out, f: usize, fd: &Field, raw: &[u8; L], off: usize, len: usize) -> bool {
    match fd.ty {
        T_STR => {
            out.soff[f] = off;
            out.slen[f] = len;
        }
        T_U8 | T_I8 | T_U16 | T_CHAR | T_BOOLV => match match fd.ty {
            T_U16 => parse_int_in::<L>(raw, off, len, false, 0, 65535),
            T_CHAR => parse_char::<L>(raw, off, len),
            T_BOOLV => parse_bool::<L>(raw, off, len),
            _ => parse_int::<L>(raw, off, len, fd.ty == T_I8),
        } {
            Some(v) => out.ival[f] = v,
            None => {
                out.kind = E_PARSE_VALUE;
                out.off = off;
                out.len = len;
                out.which = fd.ty;
                return false;
            }
        },
        _ => {}
    }
    out.present[f] = true;
    out.is_default[f] = false;
    true
}

/// What the declaration says about the argument items `items` (classified tokens of
/// `raw`).  `fields[..nf]` in declaration order; `has_sub`: the variant delegates the
/// first plain value to a sub-command.
///
/// Left open by the statement, flagged in `open` (the harness assumes them away):
/// an option name directly followed by another option, by `--` or by the end of the
/// line; a value-taking option given twice.
pub fn spec_parse<const L: usize, const L1: usize>(
    fields: &[Field; NF],
    nf: usize,
    has_sub: bool,
    raw: &[u8; L],
    items: &ma::Items<L1>,
    nitems: usize,
) -> Out {
    let mut out = blank();
    let mut expect = NF; // NF = not expecting a value
    let mut positional = 0usize;
    let mut k = 0usize;
    while k < L1 {
        if k < nitems && out.kind == OK {
            let kind = items.kind[k];
            if kind == ma::LONG || kind == ma::SHORT {
                if expect != NF {
                    out.open = true;
                }
                let mut found = NF;
                let mut f = 0;
                while f < NF {
                    if f < nf && fields[f].kind != POS && found == NF {
                        let hit = if kind == ma::SHORT {
                            fields[f].short != 0 && fields[f].short == items.scalar[k]
                        } else {
                            long_matches::<L>(raw, items.off[k], items.len[k], fields[f].long)
                        };
                        if hit {
                            found = f;
                        }
                    }
                    f += 1;
                }
                if found == NF {
                    if kind == ma::SHORT {
                        out.kind = E_UNEXPECTED_SHORT;
                        out.scalar = items.scalar[k];
                    } else {
                        out.kind = E_UNEXPECTED_LONG;
                        out.off = items.off[k];
                        out.len = items.len[k];
                    }
                } else if fields[found].kind == FLAG {
                    out.present[found] = true;
                    out.ival[found] = 1;
                    expect = NF;
                } else {
                    if out.present[found] {
                        out.open = true;
                    }
                    expect = found;
                }
            } else if kind == ma::DD {
                if expect != NF {
                    out.open = true;
                }
            } else {
                // plain value
                if expect != NF {
                    let fd = fields[expect];
                    set_value::<L>(&mut out, expect, &fd, raw, items.off[k], items.len[k]);
                    expect = NF;
                } else if has_sub {
                    out.kind = DELEGATED;
                    out.off = items.off[k];
                    out.len = items.len[k];
                    out.which = k as u8;
                } else {
                    // positional number `positional`
                    let mut found = NF;
                    let mut seen = 0usize;
                    let mut f = 0;
                    while f < NF {
                        if f < nf && fields[f].kind == POS {
                            if seen == positional && found == NF {
                                found = f;
                            }
                            seen += 1;
                        }
                        f += 1;
                    }
                    if found == NF {
                        out.kind = E_UNEXPECTED_ARG;
                        out.off = items.off[k];
                        out.len = items.len[k];
                    } else {
                        let fd = fields[found];
                        if set_value::<L>(&mut out, found, &fd, raw, items.off[k], items.len[k]) {
                            positional += 1;
                        }
                    }
                }
            }
        }
        k += 1;
    }
    if out.kind == OK || out.kind == DELEGATED {
        if expect != NF {
            out.open = true;
        }
    }
    if out.kind == OK {
        // absent fields: None / default / first missing required argument
        let mut f = 0;
        while f < NF {
            if f < nf && out.kind == OK && !out.present[f] {
                let fd = fields[f];
                if fd.kind == FLAG {
                    out.ival[f] = 0;
                } else if fd.optional {
                    // stays None
                } else if fd.has_default {
                    out.present[f] = true;
                    out.is_default[f] = true;
                    out.ival[f] = fd.default_int;
                    out.slen[f] = fd.default_str.len();
                } else {
                    out.kind = E_MISSING;
                    out.which = f as u8;
                }
            }
            f += 1;
        }
    }
    out
}
