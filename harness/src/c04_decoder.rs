//! C04 — byte stream -> key events.
use crate::inv::*;
use crate::model::decoder::*;
use crate::model::utf8 as mu;
use embedded_cli::__verif::*;

fn ev_of(i: Option<Input<'_>>) -> Ev {
    match i {
        None => Ev::None,
        Some(Input::Char(_)) => Ev::Char,
        Some(Input::Control(c)) => match c {
            ControlInput::Enter => Ev::Enter,
            ControlInput::Backspace => Ev::Bs,
            ControlInput::Tab => Ev::Tab,
            ControlInput::Up => Ev::Up,
            ControlInput::Down => Ev::Down,
            ControlInput::Forward => Ev::Fwd,
            ControlInput::Back => Ev::Back,
        },
    }
}

/// Harness A — inductive, no bound: arbitrary decoder state under DecoderInv,
/// arbitrary byte; event and abstract successor equal the reference automaton's.
#[kani::proof]
#[kani::unwind(6)]
fn c04_decoder_step() {
    let csi: bool = kani::any();
    let last: u8 = kani::any();
    let buf: [u8; 4] = kani::any();
    let expected: u8 = kani::any();
    let partial: u8 = kani::any();
    kani::assume(acc_inv(buf, expected, partial));
    let b: u8 = kani::any();
    let mut ig = InputGenerator::__verif_from_parts(
        csi,
        last,
        Utf8Accum::__verif_from_parts(buf, expected, partial),
    );
    let (s2, ev, to_utf8) = spec_step(alpha(csi, last), b);
    let upre = mu::alpha(buf, expected, partial);
    let (u2, uemit) = mu::step(upre, b);
    let got = ev_of(ig.accept(b));
    let want = if to_utf8 {
        if uemit {
            Ev::Char
        } else {
            Ev::None
        }
    } else {
        ev
    };
    assert!(got == want);
    let (c2, l2, a2) = ig.__verif_parts();
    assert!(alpha(c2, l2) == s2);
    let (ab, ae, ap) = a2.__verif_parts();
    assert!(acc_inv(ab, ae, ap));
    if to_utf8 {
        let upost = mu::alpha(ab, ae, ap);
        assert!(upost == u2 || (mu::open_case(upre, b) && upost == upre));
    } else {
        // bytes outside the text path never touch the accumulator
        assert!(ae == expected && ap == partial && ab == buf);
    }
    kani::cover!(got == Ev::Enter && last == 0x0a && b == 0x0a, "LF LF gives two Enters");
    kani::cover!(got == Ev::None && b == 0x0a && last == 0x0d, "LF swallowed after CR");
    kani::cover!(got == Ev::Up, "CSI A");
    kani::cover!(got == Ev::None && csi && b == b'Z', "unknown CSI final swallowed");
    kani::cover!(got == Ev::Char && expected == 1, "multi-byte char completed");
}

/// Base case: `new()` is the ground state with an idle accumulator.
#[kani::proof]
fn c04_decoder_base() {
    let ig = InputGenerator::new();
    let (c, l, a) = ig.__verif_parts();
    assert!(alpha(c, l) == GROUND);
    let (ab, ae, ap) = a.__verif_parts();
    assert!(acc_inv(ab, ae, ap) && mu::alpha(ab, ae, ap) == mu::IDLE);
}

/// Reachability twin.
#[kani::proof]
#[kani::unwind(6)]
fn c04_decoder_step_twin() {
    let csi: bool = kani::any();
    let last: u8 = kani::any();
    let b: u8 = kani::any();
    let mut ig = InputGenerator::__verif_from_parts(csi, last, Utf8Accum::default());
    let got = ev_of(ig.accept(b));
    assert!(got != Ev::Back, "twin: must be reported as FAILED");
}

#[cfg(not(vp_thorough))]
const SEQ: usize = 5;
#[cfg(vp_thorough)]
const SEQ: usize = 7;

/// Harness B — bounded, from `new()`: every sequence of SEQ arbitrary bytes; the
/// event list equals the reference automaton's run from its initial state.
/// Independent of the abstraction function.
#[kani::proof]
#[kani::unwind(9)]
fn c04_seq_from_new() {
    let bytes: [u8; SEQ] = kani::any();
    let mut ig = InputGenerator::new();
    let mut s = GROUND;
    let mut u = mu::IDLE;
    let mut enters = 0usize;
    let mut open = false;
    let mut i = 0;
    while i < SEQ {
        let b = bytes[i];
        let (s2, ev, to_utf8) = spec_step(s, b);
        let mut want = ev;
        if to_utf8 {
            open = open || mu::open_case(u, b);
            let (u2, uemit) = mu::step(u, b);
            u = u2;
            want = if uemit { Ev::Char } else { Ev::None };
        }
        s = s2;
        let got = ev_of(ig.accept(b));
        if to_utf8 && open {
            // text path after an unspecified state change: only the event kind is fixed
            assert!(got == Ev::Char || got == Ev::None);
        } else {
            assert!(got == want);
        }
        if got == Ev::Enter {
            enters += 1;
        }
        i += 1;
    }
    kani::cover!(enters == 3 && bytes[0] == 0x0d && bytes[1] == 0x0a && bytes[2] == 0x0d && bytes[3] == 0x0a, "CR LF CR LF .. gives one Enter per pair");
}

/// N consecutive terminators, read greedily as pairs, give one Enter per unit:
/// for every sequence over {CR, LF} the number of Enters equals the number of
/// units of the greedy pairing (CR LF and LF CR are one unit).
#[kani::proof]
#[kani::unwind(9)]
fn c04_terminator_count() {
    let bytes: [u8; SEQ] = kani::any();
    let mut ig = InputGenerator::new();
    let mut i = 0;
    let mut enters = 0usize;
    while i < SEQ {
        kani::assume(bytes[i] == 0x0d || bytes[i] == 0x0a);
        if ev_of(ig.accept(bytes[i])) == Ev::Enter {
            enters += 1;
        }
        i += 1;
    }
    // greedy pairing written directly from the statement
    let mut units = 0usize;
    let mut j = 0usize;
    while j < SEQ {
        if j + 1 < SEQ && bytes[j] != bytes[j + 1] {
            j += 2;
        } else {
            j += 1;
        }
        units += 1;
    }
    assert!(enters == units);
    kani::cover!(units * 2 == SEQ + 1, "every byte but one paired");
}
