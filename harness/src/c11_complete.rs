//! C11 — Tab completion, library layer: `Autocompletion::merge_autocompletion`
//! and `Editor::autocompletion`.  (Derived name sets: c11_derived.rs.)
use crate::inv::*;
use embedded_cli::__verif::*;
use embedded_cli::autocomplete::{Autocompletion, Request};

const M: usize = 4; // free space bound
const CL: usize = 3; // candidate length bound
const NC: usize = 3; // candidates

/// Up to three candidate continuations.  Deliberately three separate arrays:
/// Kani 0.68 mis-models `&nested[k]` unsized to `&[u8]` (DESIGN.md, tool anomalies).
pub struct Cands {
    pub c0: [u8; CL],
    pub c1: [u8; CL],
    pub c2: [u8; CL],
    pub l: [usize; NC],
    pub n: usize,
}

impl Cands {
    pub fn get(&self, k: usize) -> &[u8; CL] {
        if k == 0 {
            &self.c0
        } else if k == 1 {
            &self.c1
        } else {
            &self.c2
        }
    }
    pub fn text(&self, k: usize) -> &str {
        let a = self.get(k);
        unsafe { core::str::from_utf8_unchecked(&a[..self.l[k]]) }
    }
}

pub fn any_cands() -> Cands {
    let c0: [u8; CL] = kani::any();
    let c1: [u8; CL] = kani::any();
    let c2: [u8; CL] = kani::any();
    let l: [usize; NC] = kani::any();
    let n: usize = kani::any();
    kani::assume(n <= NC);
    kani::assume(l[0] <= CL && l[1] <= CL && l[2] <= CL);
    kani::assume(editor_inv(&c0, 0, l[0]));
    kani::assume(editor_inv(&c1, 0, l[1]));
    kani::assume(editor_inv(&c2, 0, l[2]));
    // the same name declared twice is outside the statement
    kani::assume(!(n >= 2 && same(&c0, l[0], &c1, l[1])));
    kani::assume(!(n >= 3 && (same(&c0, l[0], &c2, l[2]) || same(&c1, l[1], &c2, l[2]))));
    Cands { c0, c1, c2, l, n }
}

fn same(a: &[u8; CL], al: usize, b: &[u8; CL], bl: usize) -> bool {
    if al != bl {
        return false;
    }
    let mut i = 0;
    while i < CL {
        if i < al && a[i] != b[i] {
            return false;
        }
        i += 1;
    }
    true
}

/// longest common prefix of the first n candidates, on scalar boundaries
pub fn lcp(cs: &Cands) -> usize {
    if cs.n == 0 {
        return 0;
    }
    let mut len = cs.l[0];
    let mut k = 1;
    while k < NC {
        if k < cs.n {
            let mut i = 0;
            let mut p = 0;
            let mut stop = false;
            while i < CL {
                if !stop {
                    if i < len && i < cs.l[k] && cs.c0[i] == cs.get(k)[i] {
                        p = i + 1;
                    } else {
                        stop = true;
                    }
                }
                i += 1;
            }
            // back off to a scalar boundary of candidate 0
            let mut j = 0;
            while j < CL {
                if p > 0 && p < cs.l[0] && is_cont(cs.c0[p]) {
                    p -= 1;
                }
                j += 1;
            }
            len = p;
        }
        k += 1;
    }
    len
}

/// merge_autocompletion over every free-space size 0..=M and every list of up to
/// three distinct candidate continuations.
/// `exclude_tight`: assume no candidate is longer than the free space (the class
/// in which the statement fixes the result exactly).
fn merge_body(tight: bool) {
    let mut backing = [0u8; M];
    let m: usize = kani::any();
    kani::assume(m <= M);
    let cs = any_cands();
    let mut any_long = false;
    let mut k = 0;
    while k < NC {
        if k < cs.n && cs.l[k] > m {
            any_long = true;
        }
        k += 1;
    }
    kani::assume(any_long == tight);
    let want = lcp(&cs);
    let mut ac = Autocompletion::new(&mut backing[..m]);
    let mut k = 0;
    while k < NC {
        if k < cs.n {
            ac.merge_autocompletion(cs.text(k));
        }
        k += 1;
    }
    let partial = ac.is_partial();
    match ac.autocompleted() {
        None => {
            // nothing is proposed: allowed only when there is no candidate, or
            // (tight) when space does not permit
            assert!(cs.n == 0 || tight);
        }
        Some(a) => {
            let ab = a.as_bytes();
            assert!(cs.n > 0);
            assert!(ab.len() <= m);
            assert!(wf_utf8(ab, ab.len()));
            // a prefix of the common continuation
            assert!(ab.len() <= want);
            let mut i = 0;
            while i < CL {
                if i < ab.len() {
                    assert!(ab[i] == cs.c0[i]);
                }
                i += 1;
            }
            if !tight {
                assert!(ab.len() == want);
                assert!(partial == (cs.n >= 2));
            } else {
                // a candidate does not fit: never "complete"
                assert!(partial);
            }
        }
    }
    kani::cover!(tight || (cs.n == 3 && want == 2 && cs.l[0] == 3 && cs.c0[0] >= 0x80), "three candidates sharing a 2-byte scalar");
    kani::cover!(tight || (cs.n == 2 && want == 0 && cs.l[0] > 0 && cs.l[1] > 0 && cs.c0[0] == cs.c1[0]), "shared lead byte but different scalars");
    kani::cover!(tight || (cs.n == 1 && cs.l[0] == m && m > 0), "single candidate fills the space exactly");
    kani::cover!(tight || (cs.n == 2 && cs.l[0] == 0), "one name fully typed, another longer");
    kani::cover!(!tight || (cs.n == 2 && cs.l[0] > m && cs.l[1] <= m && cs.l[1] > 0), "first does not fit, second does");
    kani::cover!(!tight || (cs.n == 1 && m == 0), "no space at all");
}

#[kani::proof]
#[kani::unwind(6)]
fn c11_merge_fits() {
    merge_body(false);
}

/// Tight buffers (some candidate longer than the free space): safety half only.
#[kani::proof]
#[kani::unwind(6)]
fn c11_merge_tight() {
    merge_body(true);
}

#[cfg(not(vp_thorough))]
const NMAX: usize = 6;
#[cfg(vp_thorough)]
const NMAX: usize = 8;

/// Editor::autocompletion, one step from ANY editor state, with a closure that
/// proposes up to two symbolic candidates.
#[kani::proof]
#[kani::unwind(10)]
fn c11_editor_autocompletion() {
    let backing0: [u8; NMAX] = kani::any();
    let n: usize = kani::any();
    kani::assume(n <= NMAX);
    let valid: usize = kani::any();
    let cursor: usize = kani::any();
    kani::assume(valid <= n);
    kani::assume(editor_inv(&backing0[..n], cursor, valid));
    let count = scalar_count(&backing0, valid);
    let cs = any_cands();
    kani::assume(cs.n <= 2);
    // shape of the line: leading blanks, first blank after the word, trailing blanks
    let mut lead = 0usize;
    let mut i = 0;
    while i < NMAX {
        if i < valid && lead == i && backing0[i] == b' ' {
            lead = i + 1;
        }
        i += 1;
    }
    let mut trail = 0usize;
    let mut i = 0;
    while i < NMAX {
        if i < valid && trail == i && backing0[valid - 1 - i] == b' ' {
            trail = i + 1;
        }
        i += 1;
    }
    let all_blank = lead == valid;
    // request as the library sees it: blanks at the end of the line are dropped as far
    // as they are to the right of the cursor
    let cpos = scalar_offset(&backing0, valid, cursor);
    let right = valid - cpos;
    let req_end = valid - if trail < right { trail } else { right };
    let mut inner_blank = false;
    let mut i = 0;
    while i < NMAX {
        if i >= lead && i < req_end && backing0[i] == b' ' {
            inner_blank = true;
        }
        i += 1;
    }
    let word_line = !all_blank && !inner_blank && lead < req_end;
    let free = n - req_end;
    let mut tight = false;
    let mut k = 0;
    while k < NC {
        if k < cs.n && cs.l[k] > free {
            tight = true;
        }
        k += 1;
    }
    let want = lcp(&cs);
    let mut backing = backing0;
    let mut called = false;
    let mut req_ok = true;
    let base = backing.as_ptr() as usize;
    {
        let mut ed = Editor::__verif_from_parts(&mut backing[..n], cursor, valid);
        ed.autocompletion(|req, ac| {
            called = true;
            match req {
                Request::CommandName(w) => {
                    req_ok = w.as_ptr() as usize == base + lead && w.len() == req_end - lead;
                }
                _ => req_ok = false,
            }
            let mut k = 0;
            while k < NC {
                if k < cs.n {
                    ac.merge_autocompletion(cs.text(k));
                }
                k += 1;
            }
        });
        let (nb, nc, nv) = ed.__verif_parts();
        // safety, for every line and every proposal
        assert!(nv <= n);
        assert!(editor_inv(nb, nc, nv));
        let mut i = 0;
        while i < NMAX {
            if i < valid && backing0[i] != b' ' {
                assert!(i < nv && nb[i] == backing0[i]);
            }
            i += 1;
        }
        assert!(called == word_line);
        assert!(req_ok);
        if !word_line || cs.n == 0 {
            // nothing matches / an argument has been started: unchanged
            assert!(nv == valid && nc == cursor);
            let mut i = 0;
            while i < NMAX {
                if i < valid {
                    assert!(nb[i] == backing0[i]);
                }
                i += 1;
            }
        } else if !tight {
            // exact: word + common continuation (+ blank iff exactly one name and room)
            let space = cs.n == 1 && req_end + want < n;
            assert!(nv == req_end + want + if space { 1 } else { 0 });
            let mut i = 0;
            while i < NMAX {
                if i >= req_end && i < req_end + want {
                    assert!(nb[i] == cs.c0[i - req_end]);
                }
                i += 1;
            }
            if space {
                assert!(nb[nv - 1] == b' ');
            }
            assert!(nc == scalar_count(nb, nv));
        } else {
            // tight: a prefix of the common continuation, and a blank only ...never, since
            // no single name fits completely
            assert!(nv >= req_end || nv == valid);
            if nv != valid || nc != cursor {
                assert!(nv <= req_end + want);
                let mut i = 0;
                while i < NMAX {
                    if i >= req_end && i < nv {
                        assert!(nb[i] == cs.c0[i - req_end]);
                    }
                    i += 1;
                }
            }
        }
    }
    kani::cover!(word_line && cs.n == 1 && !tight && lead > 0 && cursor < count && trail > 0 && req_end < valid, "leading and trailing blanks, cursor inside");
    kani::cover!(word_line && cs.n == 2 && !tight && want == 1, "two names, one common byte");
    kani::cover!(word_line && cs.n == 1 && !tight && req_end + want == n, "no room for the blank");
    kani::cover!(!word_line && inner_blank, "argument started");
    kani::cover!(word_line && tight, "tight buffer");
    kani::cover!(all_blank && valid > 0, "blank line");
}

/// Reachability twin.
#[kani::proof]
#[kani::unwind(6)]
fn c11_merge_twin() {
    let mut backing = [0u8; M];
    let cs = any_cands();
    let mut ac = Autocompletion::new(&mut backing[..]);
    if cs.n >= 1 {
        ac.merge_autocompletion(cs.text(0));
    }
    assert!(ac.autocompleted().is_none(), "twin: must be reported as FAILED");
}
