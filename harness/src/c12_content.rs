//! C12 — help content: what the library prints for `help`, `help <command>`,
//! `<command> -h`, nested sub-command paths and unknown commands, for derived enums
//! (expanded by /repo's macros at every run), compared byte by byte *inside the
//! sink* with text written by hand from the README's format.
use crate::cli_common::*;
use crate::sinks::*;
use core::convert::Infallible;
use embedded_cli::__verif::*;
use embedded_cli::cli::CliHandle;
use embedded_cli::command::RawCommand;
use embedded_cli::{Command, CommandGroup};

#[derive(Command)]
pub enum HC<'a> {
    /// Set led
    Led {
        /// LED id
        id: u8,
        /// Level
        #[arg(short = 'l', long = "lv")]
        level: Option<u8>,
    },
    Go {
        // no doc comments on purpose: the option must still be listed
        #[arg(long = "sp")]
        speed: Option<u8>,
        #[arg(short = 'q')]
        quiet: bool,
    },
    /// Sub things
    #[command(subcommand)]
    Sub(HS),
    /// Copy a file.
    ///
    /// Second paragraph of the description.
    Cp {
        /// Source file
        #[arg(value_name = "SRC")]
        from: &'a str,
        to: Option<&'a str>,
        /// Block size
        #[arg(short, long, value_name = "N", default_value_t = 4)]
        block: u8,
    },
    /// Device
    Dev {
        /// Bus
        #[arg(short = 'b', long = "bus", default_value_t = 1)]
        bus: u8,
        /// Address
        #[arg(short = 'a')]
        addr: Option<u8>,
        #[arg(short = 'v')]
        verbose: bool,
        #[command(subcommand)]
        cmd: HS,
    },
}

#[derive(Command)]
pub enum HS {
    /// Ping it
    Ping,
}

#[derive(Command)]
#[command(help_title = "More")]
pub enum HM {
    /// Stop.
    Halt,
}

#[derive(Command)]
pub enum HHidden {
    /// Never listed
    Secret,
}

#[derive(CommandGroup)]
pub enum HG<'a> {
    Main(HC<'a>),
    #[group(hidden)]
    Hidden(HHidden),
    More(HM),
    Other(RawCommand<'a>),
}

const HELP_ALL: &str = "Commands:\r\n  led  Set led\r\n  go   \r\n  sub  Sub things\r\n  cp   Copy a file\r\n  dev  Device\r\n";
const HELP_LED: &str = "Set led\r\n\r\nUsage: led [OPTIONS] <ID>\r\n\r\nArguments:\r\n  <ID>  LED id\r\n\r\nOptions:\r\n  -l, --lv [LEVEL]  Level\r\n  -h, --help        Print help\r\n";
const HELP_GO: &str = "Usage: go [OPTIONS]\r\n\r\nOptions:\r\n  --sp [SPEED]  \r\n  -q            \r\n  -h, --help    Print help\r\n";
const HELP_SUB: &str = "Sub things\r\n\r\nUsage: sub <COMMAND>\r\n\r\nOptions:\r\n  -h, --help  Print help\r\n\r\nCommands:\r\n  ping  Ping it\r\n";
const HELP_SUB_PING: &str = "Ping it\r\n\r\nUsage: sub ping\r\n\r\nOptions:\r\n  -h, --help  Print help\r\n";
const HELP_DEV: &str = "Device\r\n\r\nUsage: dev [OPTIONS] <COMMAND>\r\n\r\nOptions:\r\n  -b, --bus <BUS>  Bus\r\n  -a [ADDR]        Address\r\n  -v               \r\n  -h, --help       Print help\r\n\r\nCommands:\r\n  ping  Ping it\r\n";
const HELP_DEV_PING: &str = "Ping it\r\n\r\nUsage: dev ping\r\n\r\nOptions:\r\n  -h, --help  Print help\r\n";
const UNKNOWN: &str = "error: unknown command\r\n";
const HELP_GROUP_ALL: &str = "Commands:\r\n  led  Set led\r\n  go   \r\n  sub  Sub things\r\n  cp   Copy a file\r\n  dev  Device\r\n\r\nMore:\r\n  halt  Stop\r\n";
const HELP_CP: &str = "Copy a file.\r\n\r\nSecond paragraph of the description.\r\n\r\nUsage: cp [OPTIONS] <SRC> [TO]\r\n\r\nArguments:\r\n  <SRC>  Source file\r\n  [TO]   \r\n\r\nOptions:\r\n  -b, --block <N>  Block size\r\n  -h, --help       Print help\r\n";
const HELP_HALT: &str = "Stop.\r\n\r\nUsage: halt\r\n\r\nOptions:\r\n  -h, --help  Print help\r\n";

const R: usize = 260;

fn expect(text: &str) -> ExpectSink<R> {
    let mut e = [0u8; R];
    let b = text.as_bytes();
    let mut i = 0;
    while i < b.len() {
        e[i] = b[i];
        i += 1;
    }
    ExpectSink::<R>::new(e, b.len())
}

fn fixed_pre() -> Pre {
    Pre {
        ebuf: [0; N],
        cursor: 0,
        valid: 0,
        count: 0,
        hbuf: [0; H],
        hcursor: None,
        hused: 0,
        prompt: 1,
    }
}

macro_rules! help_case {
    ($name:ident, $ty:ty, $raw:expr, $want:expr) => {
        #[kani::proof]
        #[kani::unwind(261)]
        fn $name() {
            let mut cli = build(&fixed_pre(), expect($want));
            let mut calls = 0usize;
            let r = {
                let mut p = RawCommand::processor(|_h: &mut CliHandle<'_, ExpectSink<R>, Infallible>, _c: RawCommand<'_>| {
                    calls += 1;
                    Ok(())
                });
                cli.__verif_process_input::<$ty, _>(Tokens::from_raw($raw, false), &mut p)
            };
            assert!(r.is_ok());
            assert!(calls == 0, "C12: help requests never reach the handler");
            assert!(cli.__verif_writer().ok(), "C12: help text as documented");
            assert!(cli.__verif_writer().pending == 0, "C15: flushed");
        }
    };
}

help_case!(help_all, HC<'_>, "help", HELP_ALL);
help_case!(help_led, HC<'_>, "help\0led", HELP_LED);
help_case!(led_dash_h, HC<'_>, "led\x005\0-h", HELP_LED);
help_case!(led_long_help, HC<'_>, "led\0--help", HELP_LED);
help_case!(led_cluster_h, HC<'_>, "led\0-lh", HELP_LED);
help_case!(help_go, HC<'_>, "help\0go", HELP_GO);
help_case!(help_cp, HC<'_>, "help\0cp", HELP_CP);
help_case!(cp_dash_h_among_values, HC<'_>, "cp\0a\0-b\x003\0-h", HELP_CP);
help_case!(help_sub, HC<'_>, "help\0sub", HELP_SUB);
help_case!(help_sub_ping, HC<'_>, "help\0sub\0ping", HELP_SUB_PING);
help_case!(sub_ping_dash_h, HC<'_>, "sub\0ping\0-h", HELP_SUB_PING);
// a parent command's options (with a default, optional, flag) and their values stand
// between the parent and the sub-command whose help is asked for
help_case!(help_dev, HC<'_>, "help\0dev", HELP_DEV);
help_case!(dev_opts_dash_h, HC<'_>, "dev\0-b\x002\0-h", HELP_DEV);
help_case!(dev_default_opt_ping_dash_h, HC<'_>, "dev\0-b\x002\0ping\0-h", HELP_DEV_PING);
help_case!(help_dev_all_opts_ping, HC<'_>, "help\0dev\0--bus\x002\0-a\x003\0-v\0ping", HELP_DEV_PING);
help_case!(help_dev_opts_unknown, HC<'_>, "help\0dev\0-a\x003\0nope", UNKNOWN);
help_case!(help_unknown, HC<'_>, "help\0nope", UNKNOWN);
help_case!(help_unknown_sub, HC<'_>, "help\0sub\0nope", UNKNOWN);
help_case!(group_help_all, HG<'_>, "help", HELP_GROUP_ALL);
help_case!(group_help_second_member, HG<'_>, "help\0halt", HELP_HALT);
help_case!(group_help_first_member, HG<'_>, "help\0go", HELP_GO);
help_case!(group_help_hidden, HG<'_>, "help\0secret", UNKNOWN);
help_case!(group_hidden_dash_h, HG<'_>, "secret\0-h", UNKNOWN);
