//! C11 — Tab completion, derived layer: `Autocomplete::autocomplete` as generated
//! by /repo's derive macros for a corpus of name sets, against the reference
//! "longest common continuation of all names that start with the word".
use crate::inv::*;
use embedded_cli::autocomplete::{Autocompletion, Request};
use embedded_cli::command::RawCommand;
use embedded_cli::service::Autocomplete;
use embedded_cli::{Command, CommandGroup};

/// shared prefix not adjacent in declaration order
#[derive(Command)]
pub enum SetA {
    Get,
    Set,
    GetLed,
    Go,
}
pub const NAMES_A: [&str; 4] = ["get", "set", "get-led", "go"];

/// one name a prefix of another, and multi-byte names
#[derive(Command)]
pub enum SetB {
    Led,
    #[command(name = "жук")]
    Zhuk,
    Ledger,
    #[command(name = "жар")]
    Zhar,
}
pub const NAMES_B: [&str; 4] = ["led", "жук", "ledger", "жар"];

#[derive(Command)]
pub enum SetHidden {
    Secret,
    Getx,
}

/// names split over two visible groups, a hidden group and a catch-all member
#[derive(CommandGroup)]
pub enum Grp<'a> {
    A(SetA),
    #[group(hidden)]
    Hid(SetHidden),
    B(SetB),
    Other(RawCommand<'a>),
}
pub const NAMES_G: [&str; 8] = ["get", "set", "get-led", "go", "led", "жук", "ledger", "жар"];

const WL: usize = 4; // typed word bound (bytes)
const FMAX: usize = 6; // free space bound
const NAMELEN: usize = 8; // longest name + 1

/// reference: (number of names starting with word, length of their longest common
/// continuation on scalar boundaries, index of the first matching name,
/// some matching name's continuation exceeds `free`)
fn reference<const K: usize>(names: &[&str; K], w: &[u8; WL], wl: usize, free: usize) -> (usize, usize, usize, bool) {
    let mut count = 0usize;
    let mut first = K;
    let mut lcc = 0usize;
    let mut tight = false;
    let mut k = 0;
    while k < K {
        let nb = names[k].as_bytes();
        let mut starts = nb.len() >= wl;
        let mut i = 0;
        while i < WL {
            if starts && i < wl && nb[i] != w[i] {
                starts = false;
            }
            i += 1;
        }
        if starts {
            let cont = nb.len() - wl;
            if cont > free {
                tight = true;
            }
            if count == 0 {
                first = k;
                lcc = cont;
            } else {
                let fb = names[first].as_bytes();
                let mut p = 0usize;
                let mut stop = false;
                let mut i = 0;
                while i < NAMELEN {
                    if !stop {
                        if i < lcc && wl + i < nb.len() && fb[wl + i] == nb[wl + i] {
                            p = i + 1;
                        } else {
                            stop = true;
                        }
                    }
                    i += 1;
                }
                let mut j = 0;
                while j < 3 {
                    if p > 0 && wl + p < fb.len() && is_cont(fb[wl + p]) {
                        p -= 1;
                    }
                    j += 1;
                }
                lcc = p;
            }
            count += 1;
        }
        k += 1;
    }
    (count, lcc, first, tight)
}

fn body<C: Autocomplete, const K: usize>(names: &[&str; K]) {
    let w: [u8; WL] = kani::any();
    let wl: usize = kani::any();
    kani::assume(wl >= 1 && wl <= WL);
    kani::assume(editor_inv(&w, 0, wl));
    let mut i = 0;
    while i < WL {
        kani::assume(i >= wl || w[i] != b' ');
        i += 1;
    }
    let mut backing = [0u8; FMAX];
    let free: usize = kani::any();
    kani::assume(free <= FMAX);
    let (count, lcc, first, tight) = reference::<K>(names, &w, wl, free);
    let word = unsafe { core::str::from_utf8_unchecked(&w[..wl]) };
    let mut ac = Autocompletion::new(&mut backing[..free]);
    C::autocomplete(Request::CommandName(word), &mut ac);
    let partial = ac.is_partial();
    match ac.autocompleted() {
        None => assert!(count == 0 || tight),
        Some(a) => {
            let ab = a.as_bytes();
            assert!(count > 0);
            assert!(ab.len() <= free && ab.len() <= lcc);
            let fb = names[if first < K { first } else { 0 }].as_bytes();
            let mut i = 0;
            while i < NAMELEN {
                if i < ab.len() {
                    assert!(ab[i] == fb[wl + i]);
                }
                i += 1;
            }
            if !tight {
                assert!(ab.len() == lcc, "the whole common continuation");
                assert!(partial == (count >= 2), "complete iff exactly one name matches");
            } else {
                assert!(partial);
            }
        }
    }
    kani::cover!(count >= 2 && !tight && lcc > 0, "several names, non-empty common continuation");
    kani::cover!(count == 1 && !tight, "unique match");
    kani::cover!(count >= 2 && !tight && lcc == 0, "several names, nothing in common beyond the word");
    kani::cover!(count == 0, "no match");
    kani::cover!(tight, "tight buffer");
}

#[kani::proof]
#[kani::unwind(10)]
fn c11_derived_set_a() {
    body::<SetA, 4>(&NAMES_A);
}

#[kani::proof]
#[kani::unwind(10)]
fn c11_derived_set_b() {
    body::<SetB, 4>(&NAMES_B);
}

#[kani::proof]
#[kani::unwind(10)]
fn c11_derived_group() {
    body::<Grp<'_>, 8>(&NAMES_G);
}

// ----------------------------------------------------------------------------- Cli level
use crate::cli_common::*;
use crate::cli_steps::*;
use crate::sinks::CountSink;
use embedded_cli::__verif::ControlInput;
use embedded_cli::command::RawCommand as Raw;

/// commands that share a longer prefix with each other than with the built-in `help`
#[derive(Command)]
pub enum SetH {
    Heat,
    Exit,
    Heap,
}
pub const NAMES_H: [&str; 4] = ["heat", "exit", "heap", "help"];

/// Tab through the Cli with a derived command set: the line is one word (no blanks,
/// cursor at its end); the result is the word + the common continuation of all user
/// commands AND the built-in `help` (+ blank iff exactly one name and room).
#[kani::proof]
#[kani::unwind(10)]
fn c11_cli_tab_with_help() {
    let pre = any_pre();
    kani::assume(pre.valid >= 1 && pre.valid <= WL && pre.cursor == pre.count);
    let mut i = 0;
    while i < N {
        kani::assume(i >= pre.valid || pre.ebuf[i] != b' ');
        i += 1;
    }
    let mut w = [0u8; WL];
    let mut i = 0;
    while i < WL {
        if i < pre.valid && i < N {
            w[i] = pre.ebuf[i];
        }
        i += 1;
    }
    let free = N - pre.valid;
    let (count, lcc, first, tight) = reference::<4>(&NAMES_H, &w, pre.valid, free);
    let mut cli = build(&pre, CountSink::new());
    let mut calls = 0usize;
    let r = {
        let mut p = Raw::processor(|_h: &mut embedded_cli::cli::CliHandle<'_, CountSink, core::convert::Infallible>, _c: Raw<'_>| {
            calls += 1;
            Ok(())
        });
        cli.__verif_on_control::<SetH, _>(ControlInput::Tab, &mut p)
    };
    assert!(r.is_ok() && calls == 0);
    let p = post(&cli);
    assert!(post_inv(&p));
    // typed text is never altered
    let mut i = 0;
    while i < N {
        if i < pre.valid {
            assert!(i < p.valid && p.ebuf[i] == pre.ebuf[i], "C11: typed characters are kept");
        }
        i += 1;
    }
    if count == 0 {
        assert!(line_eq(&p, &line_of(&pre)), "C11: nothing matches, line unchanged");
    } else {
        let fb = NAMES_H[if first < 4 { first } else { 0 }].as_bytes();
        let added = p.valid - pre.valid;
        let blank = added > 0 && p.ebuf[p.valid - 1] == b' ';
        let cont = if blank { added - 1 } else { added };
        assert!(cont <= lcc, "C11: not beyond the common continuation of all names incl. help");
        let mut i = 0;
        while i < NAMELEN {
            if i < cont {
                assert!(p.ebuf[pre.valid + i] == fb[pre.valid + i], "C11: continuation bytes");
            }
            i += 1;
        }
        if !tight {
            assert!(cont == lcc, "C11: the whole common continuation");
            assert!(blank == (count == 1 && pre.valid + lcc < N), "C11: blank iff exactly one name matches and there is room");
        } else {
            assert!(!blank || count == 1, "C11: no blank when several names match");
        }
        assert!(p.cursor == scalar_count(&p.ebuf, p.valid));
    }
    assert!(cli.__verif_writer().pending == 0, "C15: flushed");
    kani::cover!(count == 3 && !tight, "h: two user commands and help");
    kani::cover!(count == 2 && !tight, "hea: two user commands");
    kani::cover!(count == 1 && !tight, "unique");
    kani::cover!(count == 0);
}
