//! `TermSink`: an ECMA-48 / VT100 subset terminal emulator used as the output sink
//! for C06 / C13.  It interprets bytes *inside* `write()`.
//!
//! Supported: printable scalars (overwrite at the cursor, cursor advances), CR, LF,
//! CSI C (cursor forward), CSI D (cursor backward), CSI P (delete character),
//! CSI @ (insert blank), CSI 2 K (erase line).  Anything else sets `bad`.
use crate::inv::*;
use core::convert::Infallible;
use embedded_io::{ErrorType, Write};

pub const BLANK: u32 = 0x20;

pub struct TermSink<const W: usize> {
    /// cells of the current row
    pub cells: [u32; W],
    /// cursor column
    pub col: usize,
    /// completed rows (number of LF seen)
    pub rows: usize,
    /// cells of the previous row (the row completed by the last LF)
    pub prev: [u32; W],
    /// parser: 0 ground, 1 after ESC, 2 after ESC [, 3 after ESC [ 2
    pub esc: u8,
    /// pending UTF-8: remaining continuation bytes and accumulated value
    pub u_rem: u8,
    pub u_acc: u32,
    /// an unsupported control / sequence, or a write beyond the modelled width
    pub bad: bool,
    pub pending: usize,
}

impl<const W: usize> TermSink<W> {
    pub fn blank() -> Self {
        Self {
            cells: [BLANK; W],
            col: 0,
            rows: 0,
            prev: [BLANK; W],
            esc: 0,
            u_rem: 0,
            u_acc: 0,
            bad: false,
            pending: 0,
        }
    }

    fn put(&mut self, c: u32) {
        if self.col < W {
            self.cells[self.col] = c;
            self.col += 1;
        } else {
            self.bad = true;
        }
    }

    fn byte(&mut self, b: u8) {
        if self.esc == 1 {
            if b == b'[' {
                self.esc = 2;
            } else {
                self.bad = true;
                self.esc = 0;
            }
            return;
        }
        if self.esc == 2 {
            self.esc = 0;
            match b {
                b'C' => {
                    if self.col + 1 < W {
                        self.col += 1;
                    } else {
                        self.bad = true;
                    }
                }
                b'D' => {
                    if self.col > 0 {
                        self.col -= 1;
                    }
                }
                b'P' => {
                    // delete the character at the cursor, the rest of the row shifts left
                    let mut i = 0;
                    while i < W {
                        if i >= self.col {
                            self.cells[i] = if i + 1 < W { self.cells[i + 1] } else { BLANK };
                        }
                        i += 1;
                    }
                }
                b'@' => {
                    // insert a blank at the cursor, the rest shifts right
                    if self.cells[W - 1] != BLANK {
                        self.bad = true;
                    }
                    let mut i = W;
                    while i > 0 {
                        i -= 1;
                        if i > self.col {
                            self.cells[i] = self.cells[i - 1];
                        } else if i == self.col {
                            self.cells[i] = BLANK;
                        }
                    }
                }
                b'2' => self.esc = 3,
                _ => self.bad = true,
            }
            return;
        }
        if self.esc == 3 {
            self.esc = 0;
            if b == b'K' {
                self.cells = [BLANK; W];
            } else {
                self.bad = true;
            }
            return;
        }
        if self.u_rem > 0 {
            if is_cont(b) {
                self.u_acc = (self.u_acc << 6) | (b as u32 & 0x3F);
                self.u_rem -= 1;
                if self.u_rem == 0 {
                    let c = self.u_acc;
                    self.put(c);
                }
            } else {
                self.bad = true;
                self.u_rem = 0;
            }
            return;
        }
        match b {
            0x1b => self.esc = 1,
            0x0d => self.col = 0,
            0x0a => {
                self.prev = self.cells;
                self.cells = [BLANK; W];
                self.rows += 1;
            }
            b if b < 0x20 => self.bad = true,
            b if b < 0x80 => self.put(b as u32),
            b => {
                let t = lead_total(b);
                if t == 0 {
                    self.bad = true;
                } else {
                    self.u_rem = t - 1;
                    self.u_acc = match t {
                        2 => b as u32 & 0x1F,
                        3 => b as u32 & 0x0F,
                        _ => b as u32 & 0x07,
                    };
                }
            }
        }
    }

    /// parser is between characters / sequences
    pub fn settled(&self) -> bool {
        self.esc == 0 && self.u_rem == 0
    }
}

impl<const W: usize> ErrorType for TermSink<W> {
    type Error = Infallible;
}

impl<const W: usize> Write for TermSink<W> {
    fn write(&mut self, b: &[u8]) -> Result<usize, Infallible> {
        let mut i = 0;
        while i < b.len() {
            self.byte(b[i]);
            i += 1;
        }
        self.pending += b.len();
        Ok(b.len())
    }
    fn flush(&mut self) -> Result<(), Infallible> {
        self.pending = 0;
        Ok(())
    }
}
