//! C13 — application output framing, Writer component: one call of any entry
//! point from an ARBITRARY writer state (inductive step; no bound on the number
//! of calls), plus a two-call run from `new()` that does not use the invariant.
//! The Cli-level part (Enter with handler output, Cli::write) is in cli_output.rs.
use crate::inv::*;
use crate::sinks::*;
use core::convert::Infallible;
use embedded_cli::writer::Writer;

const TL: usize = 3;
const R: usize = 2 * TL + 2;

fn any_text() -> ([u8; TL], usize) {
    let t: [u8; TL] = kani::any();
    let n: usize = kani::any();
    kani::assume(n <= TL);
    let mut i = 0;
    while i < TL {
        // a letter, a 2-byte scalar, CR and LF
        kani::assume(t[i] == b'x' || t[i] == 0xC3 || t[i] == 0xA9 || t[i] == b'\n' || t[i] == b'\r');
        i += 1;
    }
    kani::assume(wf_utf8(&t, n));
    (t, n)
}

/// text with every LF replaced by CR LF (+ CR LF if `ln`)
fn transform(t: &[u8; TL], n: usize, ln: bool) -> ([u8; R], usize) {
    let mut e = [0u8; R];
    let mut l = 0usize;
    let mut i = 0;
    while i < TL {
        if i < n {
            if t[i] == b'\n' {
                e[l] = b'\r';
                l += 1;
            }
            e[l] = t[i];
            l += 1;
        }
        i += 1;
    }
    if ln {
        e[l] = b'\r';
        e[l + 1] = b'\n';
        l += 2;
    }
    (e, l)
}

/// Writer invariant: the remembered last bytes never contain LF (so "owes a line
/// break" is exactly the dirty flag).
fn writer_inv(lb: [u8; 2]) -> bool {
    lb[0] != b'\n' && lb[1] != b'\n'
}

fn call<W: embedded_io::Write<Error = Infallible>>(w: &mut Writer<'_, W, Infallible>, kind: u8, s: &str) {
    match kind {
        0 => w.write_str(s).unwrap(),
        1 => w.writeln_str(s).unwrap(),
        2 => core::fmt::Write::write_str(w, s).unwrap(),
        _ => ufmt::uWrite::write_str(w, s).unwrap(),
    }
}

/// Inductive step: arbitrary writer state under the invariant, one call of one
/// entry point with symbolic text.
fn writer_step_body(kind: u8) {
    let lb: [u8; 2] = kani::any();
    let dirty: bool = kani::any();
    kani::assume(writer_inv(lb));
    let (t, n) = any_text();
    let (e, el) = transform(&t, n, kind == 1);
    let mut sink = ExpectSink::<R>::new(e, el);
    let (owes, lb2) = {
        let mut w = Writer::__verif_from_parts(&mut sink, lb, dirty);
        assert!(w.__verif_is_dirty() == dirty);
        call(&mut w, kind, unsafe { core::str::from_utf8_unchecked(&t[..n]) });
        (w.__verif_is_dirty(), w.__verif_parts().0)
    };
    assert!(sink.ok(), "sink receives the text with each LF as CR LF");
    assert!(writer_inv(lb2));
    let want = if el > 0 { e[el - 1] != b'\n' } else { dirty };
    assert!(owes == want, "a line break is owed iff the output so far is non-empty and does not end with LF");
    kani::cover!(n == 3 && t[1] == b'\n' && t[0] == b'x' && t[2] == b'x', "text with an inner LF");
    kani::cover!(n == 2 && t[0] == b'\r' && t[1] == b'\n' && dirty, "CR LF in one call");
    kani::cover!(n == 1 && t[0] == b'\n' && lb[1] == b'\r' && dirty, "LF after a CR from an earlier call");
    kani::cover!(n == 0 && dirty, "empty text");
    kani::cover!(n == 3 && t[0] == 0xC3 && t[2] == b'\n', "2-byte scalar then LF");
    kani::cover!(n == 3 && t[0] == b'\n' && t[2] == b'\n', "several LFs");
}

#[kani::proof]
#[kani::unwind(6)]
fn c13_step_write_str() {
    writer_step_body(0);
}

#[kani::proof]
#[kani::unwind(6)]
fn c13_step_writeln_str() {
    writer_step_body(1);
}

#[kani::proof]
#[kani::unwind(6)]
fn c13_step_fmt_write() {
    writer_step_body(2);
}

#[kani::proof]
#[kani::unwind(6)]
fn c13_step_uwrite() {
    writer_step_body(3);
}

/// Base case.
#[kani::proof]
fn c13_writer_base() {
    let mut sink = CountSink::new();
    let w = Writer::new(&mut sink);
    assert!(!w.__verif_is_dirty());
    assert!(writer_inv(w.__verif_parts().0));
}

/// Two calls from `new()`, independent of the invariant.
#[kani::proof]
#[kani::unwind(10)]
fn c13_writer_two_calls() {
    let k1: u8 = kani::any();
    let k2: u8 = kani::any();
    kani::assume(k1 < 2 && k2 < 2);
    // one byte each (constant lengths keep the query small): x, CR or LF
    let (t1, _) = any_text();
    let (t2, _) = any_text();
    let n1 = 1usize;
    let n2 = 1usize;
    kani::assume(t1[0] < 0x80 && t2[0] < 0x80);
    let (e1, l1) = transform(&t1, n1, k1 == 1);
    let (e2, l2) = transform(&t2, n2, k2 == 1);
    let mut e = [0u8; 2 * R];
    let mut i = 0;
    while i < R {
        if i < l1 {
            e[i] = e1[i];
        }
        i += 1;
    }
    let mut i = 0;
    while i < R {
        if i < l2 {
            e[l1 + i] = e2[i];
        }
        i += 1;
    }
    let el = l1 + l2;
    let mut sink = ExpectSink::<{ 2 * R }>::new(e, el);
    let owes = {
        let mut w = Writer::new(&mut sink);
        call(&mut w, k1, unsafe { core::str::from_utf8_unchecked(&t1[..n1]) });
        call(&mut w, k2, unsafe { core::str::from_utf8_unchecked(&t2[..n2]) });
        w.__verif_is_dirty()
    };
    assert!(sink.ok());
    assert!(owes == (el > 0 && e[el - 1] != b'\n'));
    kani::cover!(n1 == 1 && t1[0] == b'\r' && n2 == 1 && t2[0] == b'\n' && k1 == 0 && k2 == 0, "CR and LF split over two calls");
    
    kani::cover!(k1 == 1 && k2 == 0 && n1 == 1 && t1[0] == b'\n' && n2 == 1, "writeln of a lone LF, then more text");
}

/// Reachability twin.
#[kani::proof]
#[kani::unwind(7)]
fn c13_writer_twin() {
    let (t, n) = any_text();
    let mut sink = CountSink::new();
    let dirty = {
        let mut w = Writer::new(&mut sink);
        w.write_str(unsafe { core::str::from_utf8_unchecked(&t[..n]) }).unwrap();
        w.__verif_is_dirty()
    };
    assert!(!dirty, "twin: must be reported as FAILED");
}
