//! C01(c) — glue: `process_byte(b)` equals `accept(b)` on the decoder followed by
//! the per-key entry, on copies of one symbolic state: equal results, post-states
//! and sink transcripts.  This ties every per-key step harness to the public API.
use crate::cli_common::*;
use crate::inv::*;
use crate::sinks::*;
use crate::sinks::{FailSink, Fault};
use core::convert::Infallible;
use embedded_cli::__verif::*;
use embedded_cli::cli::{Cli, CliHandle};
use embedded_cli::command::RawCommand;

const R: usize = 16;

fn build_with(pre: &Pre, ig: InputGenerator) -> CliT<RecSink<R>> {
    Cli::__verif_from_parts(
        Editor::__verif_from_parts(pre.ebuf, pre.cursor, pre.valid),
        #[cfg(feature = "history")]
        History::__verif_from_parts(pre.hbuf, pre.hcursor, pre.hused),
        ig,
        PROMPTS[pre.prompt],
        RecSink::<R>::new(),
    )
}

fn glue_body(ascii: bool, valid: Option<usize>) {
    let pre = match valid {
        Some(v) => any_pre_valid(v),
        None => any_pre(),
    };
    let csi: bool = kani::any();
    let last: u8 = kani::any();
    let abuf: [u8; 4] = kani::any();
    let aexp: u8 = kani::any();
    let apar: u8 = kani::any();
    kani::assume(acc_inv(abuf, aexp, apar));
    let b: u8 = kani::any();
    kani::assume((b < 0x80) == ascii);
    let mk = || InputGenerator::__verif_from_parts(csi, last, Utf8Accum::__verif_from_parts(abuf, aexp, apar));
    let mut cli1 = build_with(&pre, mk());
    let mut cli2 = build_with(&pre, InputGenerator::new());
    let mut calls1 = 0usize;
    let mut calls2 = 0usize;
    let r1 = {
        let mut p = RawCommand::processor(|_h: &mut CliHandle<'_, RecSink<R>, Infallible>, _c: RawCommand<'_>| {
            calls1 += 1;
            Ok(())
        });
        cli1.process_byte::<RawCommand<'_>, _>(b, &mut p)
    };
    let mut ig = mk();
    let r2 = {
        let mut p = RawCommand::processor(|_h: &mut CliHandle<'_, RecSink<R>, Infallible>, _c: RawCommand<'_>| {
            calls2 += 1;
            Ok(())
        });
        match ig.accept(b) {
            None => Ok(()),
            Some(Input::Control(c)) => cli2.__verif_on_control::<RawCommand<'_>, _>(c, &mut p),
            Some(Input::Char(t)) => cli2.__verif_on_text(t),
        }
    };
    assert!(r1.is_ok() && r2.is_ok());
    assert!(calls1 == calls2, "C01: same dispatch through the public entry");
    let p1 = post(&cli1);
    let p2 = post(&cli2);
    assert!(p1.restored && p2.restored);
    assert!(p1.cursor == p2.cursor && p1.valid == p2.valid && p1.hused == p2.hused && p1.hcursor == p2.hcursor);
    let mut i = 0;
    while i < N {
        if i < p1.valid {
            assert!(p1.ebuf[i] == p2.ebuf[i]);
        }
        i += 1;
    }
    let mut i = 0;
    while i < H {
        if i < p1.hused {
            assert!(p1.hbuf[i] == p2.hbuf[i]);
        }
        i += 1;
    }
    // decoder state after the byte
    let (c1, l1, a1) = cli1.__verif_input().unwrap().__verif_parts();
    let (c2, l2, a2) = ig.__verif_parts();
    assert!(c1 == c2 && l1 == l2 && a1.__verif_parts() == a2.__verif_parts());
    let w1 = cli1.__verif_writer();
    let w2 = cli2.__verif_writer();
    assert!(w1.len == w2.len && w1.flushes == w2.flushes && w1.pending == w2.pending && !w1.over);
    let mut i = 0;
    while i < R {
        if i < w1.len {
            assert!(w1.buf[i] == w2.buf[i]);
        }
        i += 1;
    }
    kani::cover!(calls1 == 1, "Enter dispatched");
    kani::cover!(w1.len > 0 && calls1 == 0, "an editing key echoed something");
    kani::cover!(csi && p1.cursor != pre.cursor, "arrow key through a CSI sequence");
}

/// ASCII bytes (controls, CSI sequences, 1-byte characters).
#[kani::proof]
#[kani::unwind(18)]
fn glue_ascii() {
    glue_body(true, None);
}

/// The same with a line of exactly one byte (quick tier).
#[kani::proof]
#[kani::unwind(18)]
fn glue_ascii_v1() {
    glue_body(true, Some(1));
}

// ----------------------------------------------------------------------------- with a failing sink

fn build_fail(pre: &Pre, ig: InputGenerator, fail_at: usize, permanent: bool) -> CliT<FailSink> {
    Cli::__verif_from_parts(
        Editor::__verif_from_parts(pre.ebuf, pre.cursor, pre.valid),
        #[cfg(feature = "history")]
        History::__verif_from_parts(pre.hbuf, pre.hcursor, pre.hused),
        ig,
        PROMPTS[pre.prompt],
        FailSink::new(fail_at, permanent),
    )
}

/// C14 through the PUBLIC entry: `process_byte(b)` with a sink failing at a symbolic
/// call position equals `accept(b)` + per-key entry with the same sink: same result,
/// same editor, and - whether or not the call failed - the decoder has consumed exactly
/// this byte ("later input is decoded normally").  The other C14 harnesses enter below
/// `process_byte`; this one covers what `process_byte` itself does on the error path.
#[kani::proof]
#[kani::unwind(12)]
fn glue_fail_ascii_v1() {
    let pre = any_pre_valid(1);
    let csi: bool = kani::any();
    let last: u8 = kani::any();
    let b: u8 = kani::any();
    kani::assume(b < 0x80);
    let fail_at: usize = kani::any();
    let permanent: bool = kani::any();
    let mk = || InputGenerator::__verif_from_parts(csi, last, Utf8Accum::default());
    let mut cli1 = build_fail(&pre, mk(), fail_at, permanent);
    let mut cli2 = build_fail(&pre, InputGenerator::new(), fail_at, permanent);
    let mut calls1 = 0usize;
    let mut calls2 = 0usize;
    let r1 = {
        let mut p = RawCommand::processor(|_h: &mut CliHandle<'_, FailSink, Fault>, _c: RawCommand<'_>| {
            calls1 += 1;
            Ok(())
        });
        cli1.process_byte::<RawCommand<'_>, _>(b, &mut p)
    };
    let mut ig = mk();
    let r2 = {
        let mut p = RawCommand::processor(|_h: &mut CliHandle<'_, FailSink, Fault>, _c: RawCommand<'_>| {
            calls2 += 1;
            Ok(())
        });
        match ig.accept(b) {
            None => Ok(()),
            Some(Input::Control(c)) => cli2.__verif_on_control::<RawCommand<'_>, _>(c, &mut p),
            Some(Input::Char(t)) => cli2.__verif_on_text(t),
        }
    };
    assert!(r1.is_err() == r2.is_err(), "C14: the error is returned by process_byte");
    assert!(r1.is_err() == cli1.__verif_writer().failed, "C14: the call returns the error iff the sink failed during it");
    assert!(calls1 == calls2);
    let p1 = post(&cli1);
    let p2 = post(&cli2);
    assert!(p1.restored, "C14: editor and decoder are put back");
    assert!(p1.cursor == p2.cursor && p1.valid == p2.valid, "C14: same line as the per-key entry leaves");
    let mut i = 0;
    while i < N {
        if i < p1.valid {
            assert!(p1.ebuf[i] == p2.ebuf[i], "C14: same line as the per-key entry leaves");
        }
        i += 1;
    }
    // decoder state after the byte: exactly what accept(b) leaves, error or not
    let (c1, l1, a1) = cli1.__verif_input().unwrap().__verif_parts();
    let (c2, l2, a2) = ig.__verif_parts();
    assert!(c1 == c2 && l1 == l2 && a1.__verif_parts() == a2.__verif_parts(), "C14: later input is decoded normally");
    kani::cover!(r1.is_err() && b == 0x0d, "Enter failed");
    kani::cover!(r1.is_err() && b == 0x08, "Backspace failed");
    kani::cover!(!r1.is_err() && cli1.__verif_writer().calls > 0, "no failure");
}
