//! C10 — history: inductive steps from an arbitrary state under `history_inv`.
//! One instance per buffer size H (fixed array, constant loop bounds).
use crate::inv::*;
use crate::model::history as mh;
use embedded_cli::__verif::*;

macro_rules! history_harnesses {
    ($m:ident, $H:expr, $U:expr) => {
        pub mod $m {
            use super::*;
            pub const H: usize = $H;

            pub struct HSt {
                pub buf: [u8; H],
                pub cursor: Option<usize>,
                pub used: usize,
            }

            pub fn any_state() -> HSt {
                let buf: [u8; H] = kani::any();
                let used: usize = kani::any();
                let cursor: Option<usize> = kani::any();
                kani::assume(history_inv_c::<H>(&buf, cursor, used, false));
                HSt { buf, cursor, used }
            }

            fn same_bytes(nb: &[u8], m: &mh::Hist<H>) -> bool {
                let mut i = 0;
                while i < H {
                    if i < m.used && nb[i] != m.buf[i] {
                        return false;
                    }
                    i += 1;
                }
                true
            }

            fn arr(nb: &[u8]) -> [u8; H] {
                let mut a = [0u8; H];
                let mut i = 0;
                while i < H {
                    a[i] = nb[i];
                    i += 1;
                }
                a
            }

            /// push(text): equals the reference (dedupe, minimal eviction, rejects); invariant kept.
            #[kani::proof]
            #[kani::unwind($U)]
            pub fn push_step() {
                let s = any_state();
                let tbuf: [u8; H + 1] = kani::any();
                let tl: usize = kani::any();
                kani::assume(tl <= H + 1);
                kani::assume(wf_utf8(&tbuf, tl));
                let pre = mh::Hist::<H> { buf: s.buf, used: s.used };
                let (want, accepted) = mh::push(&pre, H, &tbuf, tl);
                let mut h = History::__verif_from_parts(s.buf, s.cursor, s.used);
                h.push(unsafe { core::str::from_utf8_unchecked(&tbuf[..tl]) });
                let (nb, nc, nu) = h.__verif_parts();
                assert!(nu == want.used);
                assert!(same_bytes(nb, &want));
                if accepted {
                    assert!(nc.is_none());
                } else {
                    // statement silent on where navigation restarts after an unrecorded line
                    assert!(nc.is_none() || nc == s.cursor);
                }
                assert!(history_inv_c::<H>(&arr(nb), nc, nu, false));
                kani::cover!(H < 4 || (accepted && nu < s.used), "net shrink: evicted more than added");
                kani::cover!(H < 4 || (accepted && s.used > 3 && nu == tl + 1), "everything evicted");
                kani::cover!(H < 4 || (accepted && nu == s.used && tl == 1 && nb[0] != s.buf[0]), "duplicate moved to the newest place");
                kani::cover!(H < 2 || (!accepted && tl == H), "rejected: one byte too long");
                kani::cover!(H < 2 || (accepted && tl + 1 == H), "entry fills the buffer");
                kani::cover!(H < 3 || (!accepted && tl > 0 && tl < H), "rejected: contains NUL");
                kani::cover!(!accepted && tl == 0, "rejected: empty");
            }

            /// next_older / next_newer: result and new position equal the reference.
            #[kani::proof]
            #[kani::unwind($U)]
            pub fn navigate_step() {
                let s = any_state();
                let up: bool = kani::any();
                let pre = mh::Hist::<H> { buf: s.buf, used: s.used };
                let (wc, wshow) = if up { mh::older(&pre, s.cursor) } else { mh::newer(&pre, s.cursor) };
                let mut h = History::__verif_from_parts(s.buf, s.cursor, s.used);
                let base = h.__verif_parts().0.as_ptr() as usize;
                let got = if up { h.next_older() } else { h.next_newer() };
                match got {
                    None => assert!(wshow.is_none()),
                    Some(e) => match wshow {
                        None => assert!(false),
                        Some(st) => {
                            assert!(e.as_ptr() as usize == base + st);
                            assert!(e.len() == mh::entry_len(&pre, st));
                            assert!(wf_utf8(e.as_bytes(), e.len()));
                        }
                    },
                }
                let (nb, nc, nu) = h.__verif_parts();
                assert!(nc == wc);
                assert!(nu == s.used);
                assert!(same_bytes(nb, &pre));
                kani::cover!(H < 2 || (up && s.cursor == Some(0)), "Up at the oldest does nothing");
                kani::cover!(H < 2 || (!up && s.cursor.is_some() && wc.is_none()), "Down past the newest");
                kani::cover!(H < 4 || (up && s.cursor.is_none() && s.used > 2), "Up from the fresh line shows the newest");
                kani::cover!(H < 4 || (!up && wshow.is_some()), "Down shows a newer entry");
                kani::cover!(up && s.used == 0, "Up on empty history");
            }

            /// Base case.
            #[kani::proof]
            #[kani::unwind($U)]
            pub fn base() {
                let buf: [u8; H] = kani::any();
                let h = History::new(buf);
                let (nb, nc, nu) = h.__verif_parts();
                assert!(nu == 0 && nc.is_none());
                assert!(history_inv_c::<H>(&arr(nb), nc, nu, false));
            }
        }
    };
}

history_harnesses!(h0, 0, 3);
history_harnesses!(h1, 1, 4);
history_harnesses!(h2, 2, 5);
history_harnesses!(h3, 3, 6);
history_harnesses!(h4, 4, 7);
history_harnesses!(h5, 5, 8);
#[cfg(vp_thorough)]
history_harnesses!(h6, 6, 9);
#[cfg(vp_thorough)]
history_harnesses!(h7, 7, 10);

const HN: usize = 4;

/// Bounded cross-check from `new()`, independent of `history_inv`: three pushes of
/// <= 2-byte texts, then three navigations, compared with the reference run.
/// (The texts are three separate arrays: Kani 0.68 mis-models the unsizing of an
/// element of a nested array, `&texts[k]` as `&[u8]` - see DESIGN.md, tool anomalies.)
#[kani::proof]
#[kani::unwind(7)]
fn c10_from_new() {
    let t0: [u8; 2] = kani::any();
    let t1: [u8; 2] = kani::any();
    let t2: [u8; 2] = kani::any();
    let l0: usize = kani::any();
    let l1: usize = kani::any();
    let l2: usize = kani::any();
    let u0: bool = kani::any();
    let u1: bool = kani::any();
    let u2: bool = kani::any();
    kani::assume(l0 <= 2 && l1 <= 2 && l2 <= 2);
    kani::assume(t0[0] != 0 && t0[0] < 0x80 && t0[1] != 0 && t0[1] < 0x80);
    kani::assume(t1[0] != 0 && t1[0] < 0x80 && t1[1] != 0 && t1[1] < 0x80);
    kani::assume(t2[0] != 0 && t2[0] < 0x80 && t2[1] != 0 && t2[1] < 0x80);
    let m0 = mh::Hist::<HN> { buf: [0u8; HN], used: 0 };
    let mut h = History::new([0u8; HN]);
    let (m1, _) = mh::push(&m0, HN, &t0, l0);
    h.push(unsafe { core::str::from_utf8_unchecked(&t0[..l0]) });
    let (m2, _) = mh::push(&m1, HN, &t1, l1);
    h.push(unsafe { core::str::from_utf8_unchecked(&t1[..l1]) });
    let (m, _) = mh::push(&m2, HN, &t2, l2);
    h.push(unsafe { core::str::from_utf8_unchecked(&t2[..l2]) });
    {
        let (nb, nc, nu) = h.__verif_parts();
        assert!(nu == m.used);
        assert!(nc.is_none());
        let mut i = 0;
        while i < HN {
            if i < nu {
                assert!(nb[i] == m.buf[i]);
            }
            i += 1;
        }
    }
    let mut mc: Option<usize> = None;
    let mut k = 0;
    while k < 3 {
        let up = if k == 0 { u0 } else if k == 1 { u1 } else { u2 };
        let (wc, wshow) = if up { mh::older(&m, mc) } else { mh::newer(&m, mc) };
        mc = wc;
        let base = h.__verif_parts().0.as_ptr() as usize;
        let got = if up { h.next_older() } else { h.next_newer() };
        match (got, wshow) {
            (None, None) => {}
            (Some(e), Some(st)) => {
                assert!(e.as_ptr() as usize == base + st && e.len() == mh::entry_len(&m, st));
            }
            _ => assert!(false),
        }
        k += 1;
    }
    kani::cover!(m.used == 4, "full buffer after three pushes");
    kani::cover!(l0 == 1 && l1 == 1 && l2 == 1 && t0[0] == t2[0] && t0[0] != t1[0], "re-submitted line becomes the newest");
}

/// Reachability twin.
#[kani::proof]
#[kani::unwind(7)]
fn c10_push_twin() {
    let s = h4::any_state();
    let mut h = History::__verif_from_parts(s.buf, s.cursor, s.used);
    h.push("ab");
    let (nb, nc, nu) = h.__verif_parts();
    assert!(nu != 3, "twin: must be reported as FAILED");
}

