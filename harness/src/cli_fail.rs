//! C14 — a failing sink: every Cli-level step with `FailSink`, whose fault
//! position is a solver variable (every write/flush call position of every path),
//! failing once or permanently.
use crate::cli_common::*;
use crate::cli_steps::*;
use crate::inv::*;
use crate::sinks::*;
use embedded_cli::__verif::*;
use embedded_cli::cli::CliHandle;
use embedded_cli::command::RawCommand;

fn any_fail_sink() -> FailSink {
    let fail_at: usize = kani::any();
    let permanent: bool = kani::any();
    FailSink::new(fail_at, permanent)
}

fn cleared(p: &Post) -> bool {
    p.valid == 0 && p.cursor == 0
}

/// post-condition shared by all steps
fn check_after(pre: &Pre, p: &Post, ok_line: &Line, is_err: bool, failed: bool) {
    assert!(is_err == failed, "C14: the call returns the error iff the sink failed during it");
    assert!(p.restored, "C14: editor and decoder are put back");
    assert!(post_inv(p), "C14: the session state is still valid");
    let as_before = line_eq(p, &line_of(pre));
    let as_key = line_eq(p, ok_line);
    assert!(as_before || as_key || cleared(p), "C14: line is as it was, as the key would have left it, or cleared");
    if !failed {
        assert!(as_key);
    }
}

fn fail_key_body(key: Key) {
    let pre = any_pre();
    let mut cli = build(&pre, any_fail_sink());
    let (r, seen) = press(&mut cli, key);
    let p = post(&cli);
    let failed = cli.__verif_writer().failed;
    let (want, _) = expected_line(&pre, key);
    check_after(&pre, &p, &want, r.is_err(), failed);
    assert!(seen.calls == 0);
    kani::cover!(failed && cli.__verif_writer().fail_at > 0, "failure after the first call");
    kani::cover!(failed && cli.__verif_writer().fail_at == 0, "failure at the first call");
    kani::cover!(!failed && cli.__verif_writer().calls > 0, "no failure although something was written");
}

macro_rules! fail_key {
    ($name:ident, $key:expr) => {
        #[kani::proof]
        #[kani::unwind(7)]
        fn $name() {
            fail_key_body($key);
        }
    };
}
fail_key!(fail_backspace, Key::Backspace);
fail_key!(fail_forward, Key::Forward);
fail_key!(fail_back, Key::Back);
fail_key!(fail_up, Key::Up);
fail_key!(fail_down, Key::Down);

fn fail_char_body(l: usize) {
    let pre = any_pre();
    let (enc, _c) = any_char_of_len(l);
    let mut cli = build(&pre, any_fail_sink());
    let r = cli.__verif_on_text(unsafe { core::str::from_utf8_unchecked(&enc[..l]) });
    let p = post(&cli);
    let failed = cli.__verif_writer().failed;
    let want = ideal_insert(&pre, &enc, l);
    check_after(&pre, &p, &want, r.is_err(), failed);
    kani::cover!(N < l + 1 || (failed && cli.__verif_writer().fail_at == 1), "failure at the second call");
    kani::cover!(N == 0 || (!failed && cli.__verif_writer().calls == 0), "rejected character writes nothing");
}

#[kani::proof]
#[kani::unwind(7)]
fn fail_char1() {
    fail_char_body(1);
}

#[kani::proof]
#[kani::unwind(7)]
fn fail_char2() {
    fail_char_body(2);
}

/// Tab: the successful outcome is taken from a second run on the same state with a working sink.
#[kani::proof]
#[kani::unwind(8)]
fn fail_tab() {
    let pre = any_pre();
    let mut ok_cli = build(&pre, CountSink::new());
    let (r0, _) = press(&mut ok_cli, Key::Tab);
    assert!(r0.is_ok());
    let p0 = post(&ok_cli);
    let ok_line = Line {
        buf: p0.ebuf,
        valid: p0.valid,
        cursor: p0.cursor,
    };
    let mut cli = build(&pre, any_fail_sink());
    let (r, seen) = press(&mut cli, Key::Tab);
    let p = post(&cli);
    let failed = cli.__verif_writer().failed;
    check_after(&pre, &p, &ok_line, r.is_err(), failed);
    assert!(seen.calls == 0);
    kani::cover!(N < 4 || failed, "failure while echoing the completion");
}

/// Enter with a handler that writes (symbolically: nothing / one byte / a line).
fn fail_enter_body(valid: usize) {
    let pre = any_pre_valid(valid);
    let mode: u8 = kani::any();
    kani::assume(mode < 3);
    let mut cli = build(&pre, any_fail_sink());
    let mut calls = 0usize;
    let r = {
        let mut p = RawCommand::processor(|h: &mut CliHandle<'_, FailSink, Fault>, _c: RawCommand<'_>| {
            calls += 1;
            if mode == 1 {
                h.writer().write_str("o")?;
            }
            if mode == 2 {
                h.writer().writeln_str("o")?;
            }
            Ok(())
        });
        cli.__verif_on_control::<RawCommand<'_>, _>(ControlInput::Enter, &mut p)
    };
    let p = post(&cli);
    let failed = cli.__verif_writer().failed;
    let want = Line {
        buf: [0; N],
        valid: 0,
        cursor: 0,
    };
    check_after(&pre, &p, &want, r.is_err(), failed);
    assert!(calls <= 1);
    kani::cover!(valid < 1 || (failed && calls == 1 && mode == 1), "failure in or after the handler's own write");
    kani::cover!(valid < 1 || (failed && calls == 0), "failure before the handler");
    kani::cover!(valid < 1 || (!failed && calls == 1), "no failure");
    kani::cover!(valid > 0 || (failed && calls == 0), "failure on an empty line");
}

macro_rules! fail_enter_len {
    ($name:ident, $v:expr) => {
        #[kani::proof]
        #[kani::unwind(8)]
        fn $name() {
            fail_enter_body($v);
        }
    };
}
fail_enter_len!(fail_enter_v0, 0);
fail_enter_len!(fail_enter_v1, 1);
fail_enter_len!(fail_enter_v2, 2);
fail_enter_len!(fail_enter_v3, 3);

/// Cli::write and Cli::set_prompt.
#[kani::proof]
#[kani::unwind(7)]
fn fail_cli_write() {
    let pre = any_pre();
    let set_prompt: bool = kani::any();
    let mut cli = build(&pre, any_fail_sink());
    let r = if set_prompt { cli.set_prompt(PROMPTS[1]) } else { cli.write(|w| w.write_str("x\n")) };
    let p = post(&cli);
    let failed = cli.__verif_writer().failed;
    check_after(&pre, &p, &line_of(&pre), r.is_err(), failed);
    kani::cover!(failed && set_prompt);
    kani::cover!(failed && !set_prompt && cli.__verif_writer().fail_at > 3, "failure while redisplaying the line");
}

/// Parse errors reported by the library (`error: ...` line) with a failing sink.
#[kani::proof]
#[kani::unwind(7)]
fn fail_process_error() {
    let pre = any_pre();
    let mut cli = build(&pre, any_fail_sink());
    let which: u8 = kani::any();
    kani::assume(which < 3);
    let c: char = kani::any();
    let r = match which {
        0 => cli.__verif_process_error(embedded_cli::service::ParseError::UnknownCommand),
        1 => cli.__verif_process_error(embedded_cli::service::ParseError::UnexpectedShortOption { name: c }),
        _ => cli.__verif_process_error(embedded_cli::service::ParseError::UnexpectedArgument { value: "v" }),
    };
    let failed = cli.__verif_writer().failed;
    assert!(r.is_err() == failed, "C14: the call returns the error iff the sink failed during it");
    let p = post(&cli);
    assert!(line_eq(&p, &line_of(&pre)) && post_inv(&p));
    kani::cover!(failed && which == 1);
    kani::cover!(!failed);
}

/// Reachability twin.
#[kani::proof]
#[kani::unwind(7)]
fn fail_twin() {
    let pre = any_pre();
    let mut cli = build(&pre, any_fail_sink());
    let (r, _) = press(&mut cli, Key::Backspace);
    assert!(r.is_ok(), "twin: must be reported as FAILED");
}

#[cfg(feature = "help")]
mod group {
    use embedded_cli::{Command, CommandGroup};
    #[derive(Command)]
    pub enum FA {
        Aa,
    }
    #[derive(Command)]
    pub enum FB {
        Bb,
    }
    #[derive(CommandGroup)]
    pub enum FG {
        A(FA),
        B(FB),
    }
}

/// Help for a command of a two-member command group, sink failing at a symbolic
/// call position: the error must come back from the call (a later member of the
/// group must not turn it into "unknown command").
#[cfg(feature = "help")]
fn fail_group_help_body(fail_at: usize, which: u8) {
    let pre = Pre {
        ebuf: [0; N],
        cursor: 0,
        valid: 0,
        count: 0,
        hbuf: [0; H],
        hcursor: None,
        hused: 0,
        prompt: 1,
    };
    // the fault position and the request are constants per instance (with symbolic ones
    // the query ran out of 20 GB); whether the sink fails once or permanently is symbolic
    let permanent: bool = kani::any();
    let mut cli = build(&pre, FailSink::new(fail_at, permanent));
    let raw = match which {
        0 => "help\0aa",
        1 => "help\0bb",
        _ => "aa\0-h",
    };
    let mut calls = 0usize;
    let r = {
        let mut p = RawCommand::processor(|_h: &mut CliHandle<'_, FailSink, Fault>, _c: RawCommand<'_>| {
            calls += 1;
            Ok(())
        });
        cli.__verif_process_input::<group::FG, _>(Tokens::from_raw(raw, false), &mut p)
    };
    let failed = cli.__verif_writer().failed;
    assert!(calls == 0, "C12: help requests never reach the handler");
    assert!(r.is_err() == failed, "C14: the call returns the error iff the sink failed during it");
    kani::cover!(failed && !cli.__verif_writer().permanent, "transient failure while printing help");
    kani::cover!(failed && cli.__verif_writer().permanent, "permanent failure while printing help");
}

macro_rules! group_help_at {
    ($name:ident, $k:expr, $w:expr) => {
        #[cfg(feature = "help")]
        #[kani::proof]
        #[kani::unwind(18)]
        fn $name() {
            fail_group_help_body($k, $w);
        }
    };
}
group_help_at!(fail_group_help_first_at0, 0, 0);
group_help_at!(fail_group_help_first_at2, 2, 0);
group_help_at!(fail_group_help_first_at6, 6, 0);
group_help_at!(fail_group_help_second_at0, 0, 1);
group_help_at!(fail_group_help_second_at3, 3, 1);
group_help_at!(fail_group_help_dash_h_at1, 1, 2);
