//! C08 — argument classification.
use crate::inv::*;
use embedded_cli::__verif::*;
use crate::model::args::*;
use embedded_cli::arguments::{Arg, ArgList};

const L1: usize = L + 1;

#[cfg(not(vp_thorough))]
const L: usize = 6;
#[cfg(vp_thorough)]
const L: usize = 8;

fn classify_body(n: usize) {
    let raw: [u8; L] = kani::any();
    kani::assume(n <= L);
    kani::assume(wf_utf8(&raw, n));
    let is_empty: bool = kani::any();
    // an empty token list is represented by the flag only
    kani::assume(!is_empty || n == 0);
    let want: Items<L1> = classify::<L, L1>(&raw, n);
    let text = unsafe { core::str::from_utf8_unchecked(&raw[..n]) };
    let base = text.as_ptr() as usize;
    let list = ArgList::new(Tokens::from_raw(text, is_empty));
    let mut it = list.args();
    let mut k = 0usize;
    while k <= L {
        if !is_empty && k < want.n {
            match it.next() {
                None => assert!(false),
                Some(Arg::Value(v)) => {
                    assert!(want.kind[k] == VALUE);
                    assert!(v.len() == want.len[k]);
                    assert!(v.as_ptr() as usize - base == want.off[k] || v.len() == 0);
                }
                Some(Arg::LongOption(v)) => {
                    assert!(want.kind[k] == LONG);
                    assert!(v.len() == want.len[k]);
                    assert!(v.as_ptr() as usize - base == want.off[k]);
                    assert!(wf_utf8(v.as_bytes(), v.len()));
                }
                Some(Arg::ShortOption(c)) => {
                    assert!(want.kind[k] == SHORT);
                    assert!(c as u32 == want.scalar[k]);
                }
                Some(Arg::DoubleDash) => assert!(want.kind[k] == DD),
            }
        }
        k += 1;
    }
    assert!(it.next().is_none());
    kani::cover!(n != 6 || (want.n == 4 && want.kind[0] == SHORT && want.kind[2] == SHORT && want.kind[3] == VALUE), "cluster then value");
    kani::cover!(n != 6 || (want.n >= 3 && want.kind[0] == DD && want.kind[1] == VALUE && want.len[1] == 2 && raw[3] == b'-'), "option-looking value after --");
    kani::cover!(n != 6 || (want.n == 2 && want.kind[0] == SHORT && want.scalar[0] > 0xFFFF), "4-byte short option");
    kani::cover!(n != 1 || (want.n == 1 && want.kind[0] == VALUE && want.len[0] == 1 && raw[0] == b'-'), "lone dash is a value");
    kani::cover!(n != 5 || (want.n == 3 && want.len[0] == 0 && want.len[1] == 0 && want.kind[2] == LONG), "empty tokens are values");
    kani::cover!(n > 0 || is_empty);
    kani::cover!(n < 3 || want.kind[0] == LONG, "long option");
}

macro_rules! classify_len {
    ($name:ident, $n:expr) => {
        #[kani::proof]
        #[kani::unwind(11)]
        fn $name() {
            classify_body($n);
        }
    };
}
classify_len!(c08_classify_n0, 0);
classify_len!(c08_classify_n1, 1);
classify_len!(c08_classify_n2, 2);
classify_len!(c08_classify_n3, 3);
classify_len!(c08_classify_n4, 4);
classify_len!(c08_classify_n5, 5);
classify_len!(c08_classify_n6, 6);
#[cfg(vp_thorough)]
classify_len!(c08_classify_n7, 7);
#[cfg(vp_thorough)]
classify_len!(c08_classify_n8, 8);

/// Dash-heavy tokens: every buffer of exactly 5 bytes over {-, a, NUL}.  A small
/// alphabet keeps this query cheap even if the implementation under test uses heavier
/// string machinery; it pins `--`, `---`, `-`, `--a`, `-a-` and friends.
#[kani::proof]
#[kani::unwind(11)]
fn c08_classify_dashes() {
    let raw: [u8; L] = kani::any();
    let n: usize = 5;
    let mut i = 0;
    while i < L {
        kani::assume(raw[i] == b'-' || raw[i] == b'a' || raw[i] == 0);
        i += 1;
    }
    let want: Items<L1> = classify::<L, L1>(&raw, n);
    let text = unsafe { core::str::from_utf8_unchecked(&raw[..n]) };
    let base = text.as_ptr() as usize;
    let list = ArgList::new(Tokens::from_raw(text, false));
    let mut it = list.args();
    let mut k = 0usize;
    while k <= L {
        if k < want.n {
            match it.next() {
                None => assert!(false),
                Some(Arg::Value(v)) => {
                    assert!(want.kind[k] == VALUE && v.len() == want.len[k]);
                    assert!(v.len() == 0 || v.as_ptr() as usize - base == want.off[k]);
                }
                Some(Arg::LongOption(v)) => {
                    assert!(want.kind[k] == LONG && v.len() == want.len[k]);
                    assert!(v.as_ptr() as usize - base == want.off[k]);
                }
                Some(Arg::ShortOption(c)) => assert!(want.kind[k] == SHORT && c as u32 == want.scalar[k]),
                Some(Arg::DoubleDash) => assert!(want.kind[k] == DD),
            }
        }
        k += 1;
    }
    assert!(it.next().is_none());
    kani::cover!(want.n == 1 && want.kind[0] == LONG && want.len[0] == 3 && raw[2] == b'-', "long option whose name starts with a dash");
    kani::cover!(want.n == 2 && want.kind[0] == DD && want.kind[1] == VALUE && want.len[1] == 2, "-- then --");
}

/// Reachability twin.
#[kani::proof]
#[kani::unwind(11)]
fn c08_classify_twin() {
    let raw: [u8; L] = kani::any();
    let n: usize = 3;
    kani::assume(wf_utf8(&raw, n));
    let text = unsafe { core::str::from_utf8_unchecked(&raw[..n]) };
    let list = ArgList::new(Tokens::from_raw(text, false));
    let mut it = list.args();
    let a = it.next();
    assert!(a != Some(Arg::DoubleDash), "twin: must be reported as FAILED");
}
