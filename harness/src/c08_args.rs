//! C08 — argument classification.
use crate::inv::*;
use embedded_cli::__verif::*;
use embedded_cli::arguments::{Arg, ArgList};

#[cfg(not(vp_thorough))]
const L: usize = 6;
#[cfg(vp_thorough)]
const L: usize = 8;

/// scalar value and encoded length at `b[i]` (input is well-formed)
fn decode_at(b: &[u8], i: usize) -> (u32, usize) {
    let b0 = b[i] as u32;
    if b0 < 0x80 {
        (b0, 1)
    } else if b0 < 0xE0 {
        (((b0 & 0x1F) << 6) | (b[i + 1] as u32 & 0x3F), 2)
    } else if b0 < 0xF0 {
        (((b0 & 0x0F) << 12) | ((b[i + 1] as u32 & 0x3F) << 6) | (b[i + 2] as u32 & 0x3F), 3)
    } else {
        (
            ((b0 & 0x07) << 18) | ((b[i + 1] as u32 & 0x3F) << 12) | ((b[i + 2] as u32 & 0x3F) << 6) | (b[i + 3] as u32 & 0x3F),
            4,
        )
    }
}

const VALUE: u8 = 0;
const LONG: u8 = 1;
const SHORT: u8 = 2;
const DD: u8 = 3;

/// Reference classification of the NUL separated token buffer `raw[..n]`, written
/// from the statement.  Item k: kind[k], and (off[k], len[k]) for strings or
/// scalar[k] for short options.
struct Items {
    kind: [u8; L + 1],
    off: [usize; L + 1],
    len: [usize; L + 1],
    scalar: [u32; L + 1],
    n: usize,
}

fn classify(raw: &[u8; L], n: usize) -> Items {
    let mut it = Items {
        kind: [0; L + 1],
        off: [0; L + 1],
        len: [0; L + 1],
        scalar: [0; L + 1],
        n: 0,
    };
    let mut values_only = false;
    let mut start = 0usize;
    let mut i = 0usize;
    // one extra round for the token that ends at the end of the buffer
    while i <= L {
        if i <= n && (i == n || raw[i] == 0) {
            let len = i - start;
            if !values_only && len > 1 && raw[start] == b'-' {
                if raw[start + 1] == b'-' {
                    if len == 2 {
                        values_only = true;
                        it.kind[it.n] = DD;
                        it.n += 1;
                    } else {
                        it.kind[it.n] = LONG;
                        it.off[it.n] = start + 2;
                        it.len[it.n] = len - 2;
                        it.n += 1;
                    }
                } else {
                    let mut p = start + 1;
                    let mut k = 0usize;
                    while k < L {
                        if p < i {
                            let (c, l) = decode_at(raw, p);
                            it.kind[it.n] = SHORT;
                            it.scalar[it.n] = c;
                            it.n += 1;
                            p += l;
                        }
                        k += 1;
                    }
                }
            } else {
                it.kind[it.n] = VALUE;
                it.off[it.n] = start;
                it.len[it.n] = len;
                it.n += 1;
            }
            start = i + 1;
        }
        i += 1;
    }
    it
}

#[kani::proof]
#[kani::unwind(11)]
fn c08_classify_vs_model() {
    let raw: [u8; L] = kani::any();
    let n: usize = kani::any();
    kani::assume(n <= L);
    kani::assume(wf_utf8(&raw, n));
    let is_empty: bool = kani::any();
    // an empty token list is represented by the flag only
    kani::assume(!is_empty || n == 0);
    let want = classify(&raw, n);
    let text = unsafe { core::str::from_utf8_unchecked(&raw[..n]) };
    let base = text.as_ptr() as usize;
    let list = ArgList::new(Tokens::from_raw(text, is_empty));
    let mut it = list.args();
    let mut k = 0usize;
    while k <= L {
        if !is_empty && k < want.n {
            match it.next() {
                None => assert!(false),
                Some(Arg::Value(v)) => {
                    assert!(want.kind[k] == VALUE);
                    assert!(v.len() == want.len[k]);
                    assert!(v.as_ptr() as usize - base == want.off[k] || v.len() == 0);
                }
                Some(Arg::LongOption(v)) => {
                    assert!(want.kind[k] == LONG);
                    assert!(v.len() == want.len[k]);
                    assert!(v.as_ptr() as usize - base == want.off[k]);
                    assert!(wf_utf8(v.as_bytes(), v.len()));
                }
                Some(Arg::ShortOption(c)) => {
                    assert!(want.kind[k] == SHORT);
                    assert!(c as u32 == want.scalar[k]);
                }
                Some(Arg::DoubleDash) => assert!(want.kind[k] == DD),
            }
        }
        k += 1;
    }
    assert!(it.next().is_none());
    kani::cover!(want.n == 4 && want.kind[0] == SHORT && want.kind[2] == SHORT && want.kind[3] == VALUE, "cluster then value");
    kani::cover!(want.n >= 3 && want.kind[0] == DD && want.kind[1] == VALUE && want.len[1] == 2 && raw[3] == b'-', "option-looking value after --");
    kani::cover!(want.n == 2 && want.kind[0] == SHORT && want.scalar[0] > 0xFFFF, "4-byte short option");
    kani::cover!(want.n == 1 && want.kind[0] == VALUE && want.len[0] == 1 && raw[0] == b'-', "lone dash is a value");
    kani::cover!(want.n == 3 && want.len[0] == 0 && want.len[1] == 0 && want.kind[2] == LONG, "empty tokens are values");
    kani::cover!(is_empty);
}

/// Reachability twin.
#[kani::proof]
#[kani::unwind(11)]
fn c08_classify_twin() {
    let raw: [u8; L] = kani::any();
    let n: usize = kani::any();
    kani::assume(n <= L);
    kani::assume(wf_utf8(&raw, n));
    let text = unsafe { core::str::from_utf8_unchecked(&raw[..n]) };
    let list = ArgList::new(Tokens::from_raw(text, false));
    let mut it = list.args();
    let a = it.next();
    assert!(a != Some(Arg::DoubleDash), "twin: must be reported as FAILED");
}
