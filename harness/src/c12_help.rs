//! C12 — help requests: the request predicate `HelpRequest::from_command`.
//! (Routing and content are checked at Cli level and in c12_content.rs.)
use crate::inv::*;
use crate::model::args::*;
use embedded_cli::__verif::*;
use embedded_cli::arguments::{Arg, ArgList};
use embedded_cli::command::RawCommand;
use embedded_cli::help::HelpRequest;

#[cfg(not(vp_thorough))]
const L: usize = 6;
#[cfg(vp_thorough)]
const L: usize = 8;
const L1: usize = L + 1;

/// Every argument token buffer of <= L well-formed bytes, command name `help` or
/// another name: a help request is recognised exactly when the statement says.
fn request_predicate_body(n: usize) {
    let raw: [u8; L] = kani::any();
    kani::assume(n <= L);
    kani::assume(wf_utf8(&raw, n));
    let is_empty: bool = kani::any();
    kani::assume(!is_empty || n == 0);
    let name_is_help: bool = kani::any();
    let name = if name_is_help { "help" } else { "led" };
    let items: Items<L1> = classify::<L, L1>(&raw, n);
    let nitems = if is_empty { 0 } else { items.n };
    // reference predicate
    let mut asks = false; // -h / --help among the options before any `--`
    let mut k = 0;
    while k < L1 {
        if k < nitems {
            if items.kind[k] == SHORT && items.scalar[k] == 'h' as u32 {
                asks = true;
            }
            if items.kind[k] == LONG && items.len[k] == 4 {
                let o = items.off[k];
                if raw[o] == b'h' && raw[o + 1] == b'e' && raw[o + 2] == b'l' && raw[o + 3] == b'p' {
                    asks = true;
                }
            }
        }
        k += 1;
    }
    let text = unsafe { core::str::from_utf8_unchecked(&raw[..n]) };
    let base = text.as_ptr() as usize;
    let cmd = RawCommand::new(name, ArgList::new(Tokens::from_raw(text, is_empty)));
    let got = HelpRequest::from_command(&cmd);
    if name_is_help {
        if nitems == 0 {
            assert!(got == Some(HelpRequest::All));
        } else if items.kind[0] == VALUE {
            match got {
                Some(HelpRequest::Command(c)) => {
                    // help for the named command, with the remaining tokens as its arguments
                    let nb = c.name();
                    assert!(nb.len() == items.len[0]);
                    assert!(nb.len() == 0 || nb.as_ptr() as usize == base + items.off[0]);
                    let mut rest = c.args().args();
                    // the remaining tokens start right after the first one
                    match rest.next() {
                        None => assert!(nitems == 1),
                        Some(_) => assert!(nitems >= 2),
                    }
                }
                _ => assert!(false),
            }
        } else {
            // `help` followed by an option or `--`: the statement is silent
        }
    } else {
        match got {
            None => assert!(!asks),
            Some(HelpRequest::Command(c)) => {
                assert!(asks);
                assert!(c.name().as_ptr() as usize == name.as_ptr() as usize && c.name().len() == 3);
            }
            Some(HelpRequest::All) => assert!(false),
        }
    }
    kani::cover!(n != 5 || (!name_is_help && asks && nitems == 3 && items.kind[0] == VALUE && items.kind[1] == SHORT && items.kind[2] == SHORT), "h inside a cluster after a value");
    kani::cover!(n != 5 || (!name_is_help && !asks && nitems >= 2 && items.kind[0] == DD && items.kind[1] == VALUE && items.len[1] == 2 && raw[3] == b'-' && raw[4] == b'h'), "-h after -- is a value");
    kani::cover!(n != 6 || (!name_is_help && asks && raw[0] == b'-' && raw[1] == b'-'), "--help");
    kani::cover!(n < 3 || (name_is_help && nitems == 2 && items.kind[0] == VALUE), "help <command> <arg>");
    kani::cover!(n > 0 || (name_is_help && nitems == 0), "help alone");
    kani::cover!(n < 2 || (!name_is_help && asks), "help asked for");
}

macro_rules! pred_len {
    ($name:ident, $n:expr) => {
        #[kani::proof]
        #[kani::unwind(11)]
        fn $name() {
            request_predicate_body($n);
        }
    };
}
pred_len!(c12_request_predicate_n0, 0);
pred_len!(c12_request_predicate_n1, 1);
pred_len!(c12_request_predicate_n2, 2);
pred_len!(c12_request_predicate_n3, 3);
pred_len!(c12_request_predicate_n4, 4);
pred_len!(c12_request_predicate_n5, 5);
pred_len!(c12_request_predicate_n6, 6);
#[cfg(vp_thorough)]
pred_len!(c12_request_predicate_n7, 7);
#[cfg(vp_thorough)]
pred_len!(c12_request_predicate_n8, 8);

/// Reachability twin.
#[kani::proof]
#[kani::unwind(11)]
fn c12_request_twin() {
    let raw: [u8; L] = kani::any();
    let n: usize = 3;
    kani::assume(wf_utf8(&raw, n));
    let text = unsafe { core::str::from_utf8_unchecked(&raw[..n]) };
    let cmd = RawCommand::new("led", ArgList::new(Tokens::from_raw(text, false)));
    assert!(HelpRequest::from_command(&cmd).is_none(), "twin: must be reported as FAILED");
}
