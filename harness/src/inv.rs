//! Shared oracles: RFC 3629 well-formedness and the representation invariants.
//!
//! Everything is written flat (bytes, integers, fixed-bound loops) so that CBMC
//! encodes it cheaply.  Loops run over slice lengths, which the harnesses keep
//! below their unwind value.

pub fn is_cont(b: u8) -> bool {
    b >= 0x80 && b <= 0xBF
}

/// Total encoded length announced by a lead byte that can start a well-formed
/// multi-byte scalar; 0 for everything else (ASCII, continuation, C0/C1, F5..FF).
pub fn lead_total(b: u8) -> u8 {
    if b >= 0xC2 && b <= 0xDF {
        2
    } else if b >= 0xE0 && b <= 0xEF {
        3
    } else if b >= 0xF0 && b <= 0xF4 {
        4
    } else {
        0
    }
}

/// Second byte ranges of RFC 3629 (no overlongs, no surrogates, <= U+10FFFF).
pub fn second_ok(lead: u8, b: u8) -> bool {
    is_cont(b)
        && match lead {
            0xE0 => b >= 0xA0,
            0xED => b <= 0x9F,
            0xF0 => b >= 0x90,
            0xF4 => b <= 0x8F,
            _ => true,
        }
}

/// `s` is exactly one well-formed scalar value.
pub fn one_scalar(s: &[u8]) -> bool {
    if s.len() == 1 {
        return s[0] < 0x80;
    }
    if s.len() < 2 || s.len() > 4 {
        return false;
    }
    if lead_total(s[0]) as usize != s.len() {
        return false;
    }
    if !second_ok(s[0], s[1]) {
        return false;
    }
    if s.len() >= 3 && !is_cont(s[2]) {
        return false;
    }
    if s.len() == 4 && !is_cont(s[3]) {
        return false;
    }
    true
}

/// Encoded length of the well-formed scalar starting at `b[i]` inside `b[..end]`
/// (0 if ill-formed or truncated).
pub fn wf_len(b: &[u8], i: usize, end: usize) -> usize {
    let b0 = b[i];
    if b0 < 0x80 {
        return 1;
    }
    let total = lead_total(b0) as usize;
    if total == 0 || i + total > end {
        return 0;
    }
    if !second_ok(b0, b[i + 1]) {
        return 0;
    }
    if total >= 3 && !is_cont(b[i + 2]) {
        return 0;
    }
    if total == 4 && !is_cont(b[i + 3]) {
        return 0;
    }
    total
}

/// `b[..end]` is well-formed UTF-8 (RFC 3629).  At most `end` iterations.
pub fn wf_utf8(b: &[u8], end: usize) -> bool {
    let mut i = 0usize;
    while i < end {
        let l = wf_len(b, i, end);
        if l == 0 {
            return false;
        }
        i += l;
    }
    true
}

/// Number of scalars in well-formed `b[..end]` (number of non-continuation bytes).
pub fn scalar_count(b: &[u8], end: usize) -> usize {
    let mut i = 0usize;
    let mut n = 0usize;
    while i < end {
        if !is_cont(b[i]) {
            n += 1;
        }
        i += 1;
    }
    n
}

/// Byte offset of scalar number `k` in well-formed `b[..end]`; `end` if k >= count.
pub fn scalar_offset(b: &[u8], end: usize, k: usize) -> usize {
    let mut i = 0usize;
    let mut n = 0usize;
    while i < end {
        if !is_cont(b[i]) {
            if n == k {
                return i;
            }
            n += 1;
        }
        i += 1;
    }
    end
}

/// Strong accumulator invariant: idle, or holding a viable proper prefix of one
/// well-formed multi-byte scalar.
pub fn acc_inv(buf: [u8; 4], expected: u8, partial: u8) -> bool {
    if expected == 0 {
        return true;
    }
    if expected > 3 || partial == 0 || partial > 3 {
        return false;
    }
    let total = lead_total(buf[0]);
    if total == 0 || partial + expected != total {
        return false;
    }
    if partial >= 2 && !second_ok(buf[0], buf[1]) {
        return false;
    }
    if partial >= 3 && !is_cont(buf[2]) {
        return false;
    }
    true
}

/// Editor representation invariant: `valid <= n`, `buf[..valid]` well-formed UTF-8
/// without C0 controls, `cursor <= scalar count`.
pub fn editor_inv(buf: &[u8], cursor: usize, valid: usize) -> bool {
    if valid > buf.len() {
        return false;
    }
    let mut i = 0usize;
    while i < valid {
        if buf[i] < 0x20 {
            return false;
        }
        i += 1;
    }
    if !wf_utf8(buf, valid) {
        return false;
    }
    cursor <= scalar_count(buf, valid)
}

/// History representation invariant (see DESIGN.md 3.3).  `text_only` adds the
/// Cli-level fact that entries were editor lines (no byte < 0x20).
pub fn history_inv(buf: &[u8], cursor: Option<usize>, used: usize, text_only: bool) -> bool {
    let h = buf.len();
    if used > h {
        return false;
    }
    if used > 0 {
        if buf[used - 1] != 0 || buf[0] == 0 {
            return false;
        }
    }
    let mut i = 0usize;
    while i < used {
        if i > 0 && buf[i] == 0 && buf[i - 1] == 0 {
            return false;
        }
        if text_only && buf[i] != 0 && buf[i] < 0x20 {
            return false;
        }
        i += 1;
    }
    match cursor {
        None => {}
        Some(c) => {
            if c >= used {
                return false;
            }
            if c > 0 && buf[c - 1] != 0 {
                return false;
            }
        }
    }
    // every entry is well-formed UTF-8: NUL is ASCII, so the whole used region is
    // well-formed iff every entry is (an entry cannot end inside a scalar because
    // NUL is not a continuation byte).
    if !wf_utf8(buf, used) {
        return false;
    }
    // entries pairwise distinct
    let mut a = 0usize;
    while a < used {
        let a_start = a == 0 || buf[a - 1] == 0;
        if a_start {
            let mut b = a + 1;
            while b < used {
                if buf[b - 1] == 0 {
                    // compare entries at a and b (both NUL terminated below `used`)
                    let mut k = 0usize;
                    let mut same = true;
                    while b + k < used {
                        let x = buf[a + k];
                        let y = buf[b + k];
                        if x != y {
                            same = false;
                            break;
                        }
                        if x == 0 {
                            break;
                        }
                        k += 1;
                    }
                    if same {
                        return false;
                    }
                }
                b += 1;
            }
        }
        a += 1;
    }
    true
}

/// `history_inv` over a fixed array with constant loop bounds (cheap to unwind).
pub fn history_inv_c<const H: usize>(buf: &[u8; H], cursor: Option<usize>, used: usize, text_only: bool) -> bool {
    if used > H {
        return false;
    }
    if used > 0 {
        if buf[used - 1] != 0 || buf[0] == 0 {
            return false;
        }
    }
    let mut i = 0usize;
    while i < H {
        if i < used {
            if i > 0 && buf[i] == 0 && buf[i - 1] == 0 {
                return false;
            }
            if text_only && buf[i] != 0 && buf[i] < 0x20 {
                return false;
            }
        }
        i += 1;
    }
    match cursor {
        None => {}
        Some(c) => {
            if c >= used {
                return false;
            }
            if c > 0 && buf[c - 1] != 0 {
                return false;
            }
        }
    }
    // well-formed UTF-8 (NUL is ASCII, so entry by entry)
    let mut p = 0usize;
    let mut k = 0usize;
    while k < H {
        if p < used {
            let l = wf_len(buf, p, used);
            if l == 0 {
                return false;
            }
            p += l;
        }
        k += 1;
    }
    // entries pairwise distinct
    let mut a = 0usize;
    while a < H {
        if a < used && (a == 0 || buf[a - 1] == 0) {
            let mut b = a + 1;
            while b < H {
                if b < used && buf[b - 1] == 0 {
                    let mut k = 0usize;
                    let mut same = true;
                    let mut done = false;
                    while k < H {
                        if !done && b + k < used {
                            let x = buf[a + k];
                            let y = buf[b + k];
                            if x != y {
                                same = false;
                                done = true;
                            } else if x == 0 {
                                done = true;
                            }
                        }
                        k += 1;
                    }
                    if same {
                        return false;
                    }
                }
                b += 1;
            }
        }
        a += 1;
    }
    true
}
