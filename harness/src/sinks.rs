//! Output sinks used by the harnesses.
use core::convert::Infallible;
use embedded_io::{ErrorType, Write};

/// Counts unflushed bytes (C15) and calls.
pub struct CountSink {
    pub pending: usize,
    pub written: usize,
    pub flushes: usize,
}
impl CountSink {
    pub fn new() -> Self {
        Self {
            pending: 0,
            written: 0,
            flushes: 0,
        }
    }
}
impl ErrorType for CountSink {
    type Error = Infallible;
}
impl Write for CountSink {
    fn write(&mut self, b: &[u8]) -> Result<usize, Infallible> {
        self.pending += b.len();
        self.written += b.len();
        Ok(b.len())
    }
    fn flush(&mut self) -> Result<(), Infallible> {
        self.pending = 0;
        self.flushes += 1;
        Ok(())
    }
}

/// Records the first R bytes written.
pub struct RecSink<const R: usize> {
    pub buf: [u8; R],
    pub len: usize,
    pub over: bool,
    pub pending: usize,
    pub flushes: usize,
}
impl<const R: usize> RecSink<R> {
    pub fn new() -> Self {
        Self {
            buf: [0; R],
            len: 0,
            over: false,
            pending: 0,
            flushes: 0,
        }
    }
}
impl<const R: usize> ErrorType for RecSink<R> {
    type Error = Infallible;
}
impl<const R: usize> Write for RecSink<R> {
    fn write(&mut self, b: &[u8]) -> Result<usize, Infallible> {
        let mut i = 0;
        while i < b.len() {
            if self.len < R {
                self.buf[self.len] = b[i];
                self.len += 1;
            } else {
                self.over = true;
            }
            i += 1;
        }
        self.pending += b.len();
        Ok(b.len())
    }
    fn flush(&mut self) -> Result<(), Infallible> {
        self.pending = 0;
        self.flushes += 1;
        Ok(())
    }
}

#[derive(Debug, Clone, Copy, PartialEq, Eq)]
pub struct Fault;
impl embedded_io::Error for Fault {
    fn kind(&self) -> embedded_io::ErrorKind {
        embedded_io::ErrorKind::Other
    }
}

/// Fails at call number `fail_at` (write and flush calls are counted together),
/// and at every later call if `permanent`.
pub struct FailSink {
    pub calls: usize,
    pub fail_at: usize,
    pub permanent: bool,
    pub failed: bool,
}
impl FailSink {
    pub fn new(fail_at: usize, permanent: bool) -> Self {
        Self {
            calls: 0,
            fail_at,
            permanent,
            failed: false,
        }
    }
    fn step(&mut self) -> Result<(), Fault> {
        let c = self.calls;
        self.calls += 1;
        if c == self.fail_at || (self.permanent && c > self.fail_at) {
            self.failed = true;
            Err(Fault)
        } else {
            Ok(())
        }
    }
}
impl ErrorType for FailSink {
    type Error = Fault;
}
impl Write for FailSink {
    fn write(&mut self, b: &[u8]) -> Result<usize, Fault> {
        self.step()?;
        Ok(b.len())
    }
    fn flush(&mut self) -> Result<(), Fault> {
        self.step()
    }
}
