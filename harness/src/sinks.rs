//! Output sinks used by the harnesses.
use core::convert::Infallible;
use embedded_io::{ErrorType, Write};

/// Counts unflushed bytes (C15) and calls.
pub struct CountSink {
    pub pending: usize,
    pub written: usize,
    pub flushes: usize,
}
impl CountSink {
    pub fn new() -> Self {
        Self {
            pending: 0,
            written: 0,
            flushes: 0,
        }
    }
}
impl ErrorType for CountSink {
    type Error = Infallible;
}
impl Write for CountSink {
    fn write(&mut self, b: &[u8]) -> Result<usize, Infallible> {
        self.pending += b.len();
        self.written += b.len();
        Ok(b.len())
    }
    fn flush(&mut self) -> Result<(), Infallible> {
        self.pending = 0;
        self.flushes += 1;
        Ok(())
    }
}

/// Records the first R bytes written.
pub struct RecSink<const R: usize> {
    pub buf: [u8; R],
    pub len: usize,
    pub over: bool,
    pub pending: usize,
    pub flushes: usize,
}
impl<const R: usize> RecSink<R> {
    pub fn new() -> Self {
        Self {
            buf: [0; R],
            len: 0,
            over: false,
            pending: 0,
            flushes: 0,
        }
    }
}
impl<const R: usize> ErrorType for RecSink<R> {
    type Error = Infallible;
}
impl<const R: usize> Write for RecSink<R> {
    fn write(&mut self, b: &[u8]) -> Result<usize, Infallible> {
        let mut i = 0;
        while i < b.len() {
            if self.len < R {
                self.buf[self.len] = b[i];
                self.len += 1;
            } else {
                self.over = true;
            }
            i += 1;
        }
        self.pending += b.len();
        Ok(b.len())
    }
    fn flush(&mut self) -> Result<(), Infallible> {
        self.pending = 0;
        self.flushes += 1;
        Ok(())
    }
}

#[derive(Debug, Clone, Copy, PartialEq, Eq)]
pub struct Fault;
impl embedded_io::Error for Fault {
    fn kind(&self) -> embedded_io::ErrorKind {
        embedded_io::ErrorKind::Other
    }
}

/// Fails at call number `fail_at` (write and flush calls are counted together),
/// and at every later call if `permanent`.
pub struct FailSink {
    pub calls: usize,
    pub fail_at: usize,
    pub permanent: bool,
    pub failed: bool,
}
impl FailSink {
    pub fn new(fail_at: usize, permanent: bool) -> Self {
        Self {
            calls: 0,
            fail_at,
            permanent,
            failed: false,
        }
    }
    fn step(&mut self) -> Result<(), Fault> {
        let c = self.calls;
        self.calls += 1;
        if c == self.fail_at || (self.permanent && c > self.fail_at) {
            self.failed = true;
            Err(Fault)
        } else {
            Ok(())
        }
    }
}
impl ErrorType for FailSink {
    type Error = Fault;
}
impl Write for FailSink {
    fn write(&mut self, b: &[u8]) -> Result<usize, Fault> {
        self.step()?;
        Ok(b.len())
    }
    fn flush(&mut self) -> Result<(), Fault> {
        self.step()
    }
}

/// Compares every byte written with an expected transcript on the fly.
pub struct ExpectSink<const R: usize> {
    pub expected: [u8; R],
    pub elen: usize,
    pub pos: usize,
    pub mismatch: bool,
    pub pending: usize,
}
impl<const R: usize> ExpectSink<R> {
    pub fn new(expected: [u8; R], elen: usize) -> Self {
        Self {
            expected,
            elen,
            pos: 0,
            mismatch: false,
            pending: 0,
        }
    }
    pub fn ok(&self) -> bool {
        !self.mismatch && self.pos == self.elen
    }
}
impl<const R: usize> ErrorType for ExpectSink<R> {
    type Error = Infallible;
}
impl<const R: usize> Write for ExpectSink<R> {
    fn write(&mut self, b: &[u8]) -> Result<usize, Infallible> {
        let mut i = 0;
        while i < b.len() {
            if self.pos < self.elen && self.pos < R && self.expected[self.pos] == b[i] {
                self.pos += 1;
            } else {
                self.mismatch = true;
            }
            i += 1;
        }
        self.pending += b.len();
        Ok(b.len())
    }
    fn flush(&mut self) -> Result<(), Infallible> {
        self.pending = 0;
        Ok(())
    }
}

/// Remembers what was written since the last LF (the current terminal row, raw).
pub struct TailSink<const K: usize> {
    pub tail: [u8; K],
    pub len: usize,
    pub lfs: usize,
    pub over: bool,
    pub pending: usize,
    pub written: usize,
}
impl<const K: usize> TailSink<K> {
    pub fn new() -> Self {
        Self {
            tail: [0; K],
            len: 0,
            lfs: 0,
            over: false,
            pending: 0,
            written: 0,
        }
    }
    pub fn tail_is(&self, s: &str) -> bool {
        let b = s.as_bytes();
        if self.over || self.len != b.len() {
            return false;
        }
        let mut i = 0;
        while i < K {
            if i < b.len() && self.tail[i] != b[i] {
                return false;
            }
            i += 1;
        }
        true
    }
}
impl<const K: usize> ErrorType for TailSink<K> {
    type Error = Infallible;
}
impl<const K: usize> Write for TailSink<K> {
    fn write(&mut self, b: &[u8]) -> Result<usize, Infallible> {
        let mut i = 0;
        while i < b.len() {
            if b[i] == b'\n' {
                self.len = 0;
                self.over = false;
                self.lfs += 1;
            } else if self.len < K {
                self.tail[self.len] = b[i];
                self.len += 1;
            } else {
                self.over = true;
            }
            i += 1;
        }
        self.pending += b.len();
        self.written += b.len();
        Ok(b.len())
    }
    fn flush(&mut self) -> Result<(), Infallible> {
        self.pending = 0;
        Ok(())
    }
}
