//! Shared infrastructure of the Cli-level one-step harnesses (C01, C03, C05, C06,
//! C10, C13, C14, C15, C16): arbitrary `CliInv` pre-state, per-key entry, ideal
//! post-state.
use crate::inv::*;
use crate::model::args as ma;
use crate::model::history as mh;
use crate::model::tokens as mt;
use embedded_cli::__verif::*;
use embedded_cli::arguments::Arg;
use embedded_cli::cli::{Cli, CliHandle};
use embedded_cli::command::RawCommand;
use embedded_io::Write;

#[cfg(vp_n5)]
pub const N: usize = 5;
#[cfg(vp_n4)]
pub const N: usize = 4;
#[cfg(vp_n2)]
pub const N: usize = 2;
#[cfg(vp_n1)]
pub const N: usize = 1;
#[cfg(vp_n0)]
pub const N: usize = 0;
#[cfg(not(any(vp_n0, vp_n1, vp_n2, vp_n4, vp_n5)))]
pub const N: usize = 3;

#[cfg(vp_h4)]
pub const H: usize = 4;
#[cfg(vp_h2)]
pub const H: usize = 2;
#[cfg(vp_h1)]
pub const H: usize = 1;
#[cfg(vp_h0)]
pub const H: usize = 0;
#[cfg(not(any(vp_h0, vp_h1, vp_h2, vp_h4)))]
pub const H: usize = 3;

pub const N1: usize = N + 1;

pub const PROMPTS: [&str; 3] = ["", "$ ", "\u{e9}> "];
/// scalar lengths of the prompts
pub const PROMPT_CHARS: [usize; 3] = [0, 2, 3];

pub type CliT<W> = Cli<W, <W as embedded_io::ErrorType>::Error, [u8; N], [u8; H]>;

#[derive(Clone, Copy)]
pub struct Pre {
    pub ebuf: [u8; N],
    pub cursor: usize,
    pub valid: usize,
    pub count: usize,
    pub hbuf: [u8; H],
    pub hcursor: Option<usize>,
    pub hused: usize,
    pub prompt: usize,
}

/// Arbitrary state satisfying `CliInv`.
pub fn any_pre() -> Pre {
    let valid: usize = kani::any();
    any_pre_valid(valid)
}

/// Arbitrary state satisfying `CliInv` whose line has exactly `valid` bytes.  With a
/// constant `valid` the loops over the line fold during symbolic execution, which
/// is what makes the Enter-class harnesses fit into memory (one instance per length).
pub fn any_pre_valid(valid: usize) -> Pre {
    let prompt: usize = kani::any();
    any_pre_fixed(valid, prompt)
}

/// ... and with a given prompt (a constant prompt lets the prompt writes fold, too).
pub fn any_pre_fixed(valid: usize, prompt: usize) -> Pre {
    let ebuf: [u8; N] = kani::any();
    let cursor: usize = kani::any();
    kani::assume(valid <= N);
    kani::assume(editor_inv(&ebuf, cursor, valid));
    let count = scalar_count(&ebuf, valid);
    let hbuf: [u8; H] = kani::any();
    let hcursor: Option<usize> = kani::any();
    let hused: usize = kani::any();
    #[cfg(feature = "history")]
    {
        kani::assume(history_inv_c::<H>(&hbuf, hcursor, hused, true));
        // every recorded line was an editor line: not longer than the command buffer
        let m = mh::Hist::<H> { buf: hbuf, used: hused };
        let st = mh::starts(&m);
        let mut k = 0;
        while k < H {
            if k < st.n {
                kani::assume(mh::entry_len(&m, st.start[k]) <= N);
            }
            k += 1;
        }
    }
    #[cfg(not(feature = "history"))]
    {
        kani::assume(hused == 0 && hcursor.is_none());
    }
    kani::assume(prompt < 3);
    Pre {
        ebuf,
        cursor,
        valid,
        count,
        hbuf,
        hcursor,
        hused,
        prompt,
    }
}

pub fn build<W: Write>(pre: &Pre, sink: W) -> CliT<W> {
    Cli::__verif_from_parts(
        Editor::__verif_from_parts(pre.ebuf, pre.cursor, pre.valid),
        #[cfg(feature = "history")]
        History::__verif_from_parts(pre.hbuf, pre.hcursor, pre.hused),
        InputGenerator::new(),
        PROMPTS[pre.prompt],
        sink,
    )
}

#[derive(Clone, Copy)]
pub struct Post {
    pub ebuf: [u8; N],
    pub cursor: usize,
    pub valid: usize,
    pub hbuf: [u8; H],
    pub hcursor: Option<usize>,
    pub hused: usize,
    pub restored: bool,
}

pub fn post<W: Write>(cli: &CliT<W>) -> Post {
    let mut p = Post {
        ebuf: [0; N],
        cursor: 0,
        valid: 0,
        hbuf: [0; H],
        hcursor: None,
        hused: 0,
        restored: false,
    };
    if let Some(ed) = cli.__verif_editor() {
        let (b, c, v) = ed.__verif_parts();
        let mut i = 0;
        while i < N {
            p.ebuf[i] = b[i];
            i += 1;
        }
        p.cursor = c;
        p.valid = v;
        p.restored = cli.__verif_input().is_some();
    }
    #[cfg(feature = "history")]
    {
        let (b, c, u) = cli.__verif_history().__verif_parts();
        let mut i = 0;
        while i < H {
            p.hbuf[i] = b[i];
            i += 1;
        }
        p.hcursor = c;
        p.hused = u;
    }
    p
}

pub fn post_inv(p: &Post) -> bool {
    if !p.restored || !editor_inv(&p.ebuf, p.cursor, p.valid) {
        return false;
    }
    #[cfg(feature = "history")]
    {
        if !history_inv_c::<H>(&p.hbuf, p.hcursor, p.hused, true) {
            return false;
        }
    }
    true
}

#[derive(Clone, Copy, PartialEq, Eq)]
pub enum Key {
    Backspace,
    Tab,
    Up,
    Down,
    Forward,
    Back,
    Enter,
}

pub fn control_of(k: Key) -> ControlInput {
    match k {
        Key::Backspace => ControlInput::Backspace,
        Key::Tab => ControlInput::Tab,
        Key::Up => ControlInput::Up,
        Key::Down => ControlInput::Down,
        Key::Forward => ControlInput::Forward,
        Key::Back => ControlInput::Back,
        Key::Enter => ControlInput::Enter,
    }
}

/// Expected editor content after a key: (bytes, valid, cursor)
#[derive(Clone, Copy)]
pub struct Line {
    pub buf: [u8; N],
    pub valid: usize,
    pub cursor: usize,
}

pub fn line_of(pre: &Pre) -> Line {
    Line {
        buf: pre.ebuf,
        valid: pre.valid,
        cursor: pre.cursor,
    }
}

pub fn line_eq(p: &Post, l: &Line) -> bool {
    if p.valid != l.valid || p.cursor != l.cursor {
        return false;
    }
    let mut i = 0;
    while i < N {
        if i < l.valid && p.ebuf[i] != l.buf[i] {
            return false;
        }
        i += 1;
    }
    true
}

/// ideal editor: insert the encoding `enc[..l]` of one scalar at the cursor
pub fn ideal_insert(pre: &Pre, enc: &[u8; 4], l: usize) -> Line {
    let mut out = line_of(pre);
    if pre.valid + l > N {
        return out;
    }
    let cpos = scalar_offset(&pre.ebuf, pre.valid, pre.cursor);
    let mut i = 0;
    while i < N {
        if i < pre.valid + l {
            out.buf[i] = if i < cpos {
                pre.ebuf[i]
            } else if i < cpos + l {
                enc[i - cpos]
            } else {
                pre.ebuf[i - l]
            };
        }
        i += 1;
    }
    out.valid = pre.valid + l;
    out.cursor = pre.cursor + 1;
    out
}

pub fn ideal_backspace(pre: &Pre) -> Line {
    let mut out = line_of(pre);
    if pre.cursor == 0 {
        return out;
    }
    let p = scalar_offset(&pre.ebuf, pre.valid, pre.cursor - 1);
    let q = scalar_offset(&pre.ebuf, pre.valid, pre.cursor);
    let l = q - p;
    let mut i = 0;
    while i < N {
        if i >= p && i + l < N {
            out.buf[i] = pre.ebuf[i + l];
        }
        i += 1;
    }
    out.valid = pre.valid - l;
    out.cursor = pre.cursor - 1;
    out
}

pub fn ideal_move(pre: &Pre, right: bool) -> Line {
    let mut out = line_of(pre);
    if right {
        if pre.cursor < pre.count {
            out.cursor += 1;
        }
    } else if pre.cursor > 0 {
        out.cursor -= 1;
    }
    out
}

/// Up / Down through the reference history: (line, history cursor)
#[cfg(feature = "history")]
pub fn ideal_navigate(pre: &Pre, up: bool) -> (Line, Option<usize>) {
    let m = mh::Hist::<H> {
        buf: pre.hbuf,
        used: pre.hused,
    };
    let (wc, show) = if up { mh::older(&m, pre.hcursor) } else { mh::newer(&m, pre.hcursor) };
    let mut out = line_of(pre);
    match show {
        Some(st) => {
            let l = mh::entry_len(&m, st);
            let mut i = 0;
            while i < N {
                if i < l {
                    out.buf[i] = pre.hbuf[st + i];
                }
                i += 1;
            }
            out.valid = l;
            out.cursor = scalar_count(&out.buf, l);
        }
        None => {
            if !up {
                // moving past the newest leaves an empty line
                out.valid = 0;
                out.cursor = 0;
            }
        }
    }
    (out, wc)
}

// ----------------------------------------------------------------------------- handler side

/// What the command handler saw, recorded flat.
#[derive(Clone, Copy)]
pub struct Seen<const L: usize, const L1: usize> {
    pub calls: usize,
    pub name: [u8; L],
    pub name_len: usize,
    pub nitems: usize,
    pub kind: [u8; L1],
    pub bytes: [[u8; L]; L1],
    pub len: [usize; L1],
    pub scalar: [u32; L1],
    pub overflow: bool,
}

impl<const L: usize, const L1: usize> Seen<L, L1> {
    pub fn new() -> Self {
        Seen {
            calls: 0,
            name: [0; L],
            name_len: 0,
            nitems: 0,
            kind: [0; L1],
            bytes: [[0; L]; L1],
            len: [0; L1],
            scalar: [0; L1],
            overflow: false,
        }
    }

    fn put_str(dst: &mut [u8; L], s: &str) -> (usize, bool) {
        let b = s.as_bytes();
        if b.len() > L {
            return (0, true);
        }
        let mut i = 0;
        while i < L {
            if i < b.len() {
                dst[i] = b[i];
            }
            i += 1;
        }
        (b.len(), false)
    }

    /// cheap variant: count the call and copy the command name only
    pub fn record_name(&mut self, cmd: &RawCommand<'_>) {
        self.calls += 1;
        let (l, o) = Self::put_str(&mut self.name, cmd.name());
        self.name_len = l;
        self.overflow |= o;
    }

    pub fn record(&mut self, cmd: &RawCommand<'_>) {
        self.calls += 1;
        let (l, o) = Self::put_str(&mut self.name, cmd.name());
        self.name_len = l;
        self.overflow |= o;
        let mut it = cmd.args().args();
        let mut k = 0;
        self.nitems = 0;
        while k < L1 {
            match it.next() {
                None => {}
                Some(a) => {
                    match a {
                        Arg::Value(v) => {
                            self.kind[k] = ma::VALUE;
                            let (l, o) = Self::put_str(&mut self.bytes[k], v);
                            self.len[k] = l;
                            self.overflow |= o;
                        }
                        Arg::LongOption(v) => {
                            self.kind[k] = ma::LONG;
                            let (l, o) = Self::put_str(&mut self.bytes[k], v);
                            self.len[k] = l;
                            self.overflow |= o;
                        }
                        Arg::ShortOption(c) => {
                            self.kind[k] = ma::SHORT;
                            self.scalar[k] = c as u32;
                        }
                        Arg::DoubleDash => self.kind[k] = ma::DD,
                    }
                    self.nitems = k + 1;
                }
            }
            k += 1;
        }
        if it.next().is_some() {
            self.overflow = true;
        }
    }
}

/// Reference view of a line: tokens (C07 model), then name + classified arguments
/// (C08 model) and whether it is a help request (C12 predicate).
pub struct Parsed<const L: usize, const L1: usize> {
    pub ntok: usize,
    pub open: bool,
    pub name: [u8; L],
    pub name_len: usize,
    pub raw: [u8; L],
    pub raw_len: usize,
    pub items: ma::Items<L1>,
    pub nitems: usize,
    pub help_shaped: bool,
    pub help_open: bool,
}

pub fn parse_line<const L: usize, const L1: usize>(buf: &[u8; L], valid: usize) -> Parsed<L, L1> {
    let t = mt::tokenize::<L>(buf, valid);
    let mut p = Parsed {
        ntok: t.n,
        open: t.open,
        name: [0; L],
        name_len: 0,
        raw: [0; L],
        raw_len: 0,
        items: ma::classify::<L, L1>(&[0; L], 0),
        nitems: 0,
        help_shaped: false,
        help_open: false,
    };
    if t.n == 0 {
        return p;
    }
    p.name_len = t.len[0];
    let mut i = 0;
    while i < L {
        if i < t.len[0] {
            p.name[i] = t.buf[t.start[0] + i];
        }
        i += 1;
    }
    // remaining tokens joined with NUL
    let mut o = 0usize;
    let mut k = 1;
    while k < L {
        if k < t.n {
            if k > 1 {
                p.raw[o] = 0;
                o += 1;
            }
            let mut j = 0;
            while j < L {
                if j < t.len[k] {
                    p.raw[o] = t.buf[t.start[k] + j];
                    o += 1;
                }
                j += 1;
            }
        }
        k += 1;
    }
    p.raw_len = o;
    if t.n >= 2 {
        p.items = ma::classify::<L, L1>(&p.raw, o);
        p.nitems = p.items.n;
    }
    finish_help(&mut p);
    p
}

/// Reference view of an already tokenised line: `raw[..n]` NUL separated, at least one token.
pub fn parse_raw<const L: usize, const L1: usize>(raw: &[u8; L], n: usize) -> Parsed<L, L1> {
    let mut p = Parsed {
        ntok: 1,
        open: false,
        name: [0; L],
        name_len: 0,
        raw: [0; L],
        raw_len: 0,
        items: ma::classify::<L, L1>(&[0; L], 0),
        nitems: 0,
        help_shaped: false,
        help_open: false,
    };
    // first token
    let mut first_end = n;
    let mut i = 0;
    while i < L {
        if i < n && raw[i] == 0 && first_end == n {
            first_end = i;
        }
        i += 1;
    }
    p.name_len = first_end;
    let mut i = 0;
    while i < L {
        if i < first_end {
            p.name[i] = raw[i];
        }
        i += 1;
    }
    if first_end < n {
        p.ntok = 2;
        let mut i = 0;
        while i < L {
            if first_end + 1 + i < n {
                p.raw[i] = raw[first_end + 1 + i];
            }
            i += 1;
        }
        p.raw_len = n - first_end - 1;
        p.items = ma::classify::<L, L1>(&p.raw, p.raw_len);
        p.nitems = p.items.n;
    }
    finish_help(&mut p);
    p
}

fn finish_help<const L: usize, const L1: usize>(p: &mut Parsed<L, L1>) {
    // help predicate
    let is_help = p.name_len == 4 && p.name[0] == b'h' && p.name[1] == b'e' && p.name[2] == b'l' && p.name[3] == b'p';
    if is_help {
        if p.nitems == 0 || p.items.kind[0] == ma::VALUE {
            p.help_shaped = true;
        } else {
            p.help_open = true;
        }
    } else {
        let mut k = 0;
        while k < L1 {
            if k < p.nitems {
                if p.items.kind[k] == ma::SHORT && p.items.scalar[k] == 'h' as u32 {
                    p.help_shaped = true;
                }
                if p.items.kind[k] == ma::LONG && p.items.len[k] == 4 {
                    let o = p.items.off[k];
                    if p.raw[o] == b'h' && p.raw[o + 1] == b'e' && p.raw[o + 2] == b'l' && p.raw[o + 3] == b'p' {
                        p.help_shaped = true;
                    }
                }
            }
            k += 1;
        }
    }
}

pub fn name_matches<const L: usize, const L1: usize>(s: &Seen<L, L1>, p: &Parsed<L, L1>) -> bool {
    if s.overflow || s.name_len != p.name_len {
        return false;
    }
    let mut i = 0;
    while i < L {
        if i < p.name_len && s.name[i] != p.name[i] {
            return false;
        }
        i += 1;
    }
    true
}

/// the handler saw exactly the parsed line
pub fn seen_matches<const L: usize, const L1: usize>(s: &Seen<L, L1>, p: &Parsed<L, L1>) -> bool {
    if s.overflow || s.name_len != p.name_len || s.nitems != p.nitems {
        return false;
    }
    let mut i = 0;
    while i < L {
        if i < p.name_len && s.name[i] != p.name[i] {
            return false;
        }
        i += 1;
    }
    let mut k = 0;
    while k < L1 {
        if k < p.nitems {
            if s.kind[k] != p.items.kind[k] {
                return false;
            }
            if s.kind[k] == ma::SHORT {
                if s.scalar[k] != p.items.scalar[k] {
                    return false;
                }
            } else if s.kind[k] != ma::DD {
                if s.len[k] != p.items.len[k] {
                    return false;
                }
                let mut j = 0;
                while j < L {
                    if j < s.len[k] && s.bytes[k][j] != p.raw[p.items.off[k] + j] {
                        return false;
                    }
                    j += 1;
                }
            }
        }
        k += 1;
    }
    true
}
