//! C07 — tokenisation.
use crate::inv::*;
use crate::model::tokens::*;
use embedded_cli::__verif::*;
use embedded_cli::arguments::Arg;

#[cfg(not(vp_thorough))]
const L: usize = 6;
#[cfg(vp_thorough)]
const L: usize = 8;

/// every line of exactly `n` bytes (constant per harness instance)
fn any_line(n: usize) -> ([u8; L], usize) {
    let line: [u8; L] = kani::any();
    kani::assume(n <= L);
    let mut i = 0;
    while i < L {
        kani::assume(line[i] != 0);
        i += 1;
    }
    (line, n)
}

/// Harness A: every line of <= L bytes over all byte values except NUL: the
/// tokens produced in place equal the reference tokenizer's, one by one.
fn tokens_vs_model_body(n: usize) {
    let (line, n) = any_line(n);
    let m = tokenize::<L>(&line, n);
    kani::assume(!m.open);
    let wf = wf_utf8(&line, n);
    let mut work = line;
    let text = unsafe { core::str::from_utf8_unchecked_mut(&mut work[..n]) };
    let tokens = Tokens::new(text);
    assert!(tokens.is_empty() == (m.n == 0));
    let mut it = tokens.iter();
    let mut k = 0usize;
    while k < L {
        if k < m.n {
            match it.next() {
                None => assert!(false),
                Some(tok) => {
                    let tb = tok.as_bytes();
                    assert!(tb.len() == m.len[k]);
                    let mut j = 0usize;
                    while j < L {
                        if j < m.len[k] {
                            assert!(tb[j] == m.buf[m.start[k] + j]);
                        }
                        j += 1;
                    }
                    if wf {
                        // C02: tokens of a well-formed line are well-formed
                        assert!(wf_utf8(tb, tb.len()));
                    }
                }
            }
        }
        k += 1;
    }
    assert!(it.next().is_none());
    kani::cover!(n < 4 || (m.n >= 2 && m.len[0] == 0), "empty quoted token first");
    kani::cover!(n < 5 || m.n == 3, "three tokens");
    kani::cover!(n < 4 || (m.n == 2 && m.len[1] == 0), "empty token last");
    kani::cover!(n < 4 || (m.n == 1 && m.len[0] + 3 == n && line[0] == b'"'), "escape inside quotes");
    kani::cover!(n > 0 || m.n == 0, "empty line");
    kani::cover!(n < 1 || m.n == 1, "one token");
}

/// Harness C: RawCommand::from_tokens = (first token, remaining tokens).
fn raw_command_split_body(n: usize) {
    let (line, n) = any_line(n);
    let m = tokenize::<L>(&line, n);
    kani::assume(!m.open);
    // keep the remaining tokens plain values so that the classifier is the identity
    let mut k = 1usize;
    while k < L {
        if k < m.n && m.len[k] > 0 {
            kani::assume(m.buf[m.start[k]] != b'-');
        }
        k += 1;
    }
    let mut work = line;
    let text = unsafe { core::str::from_utf8_unchecked_mut(&mut work[..n]) };
    let tokens = Tokens::new(text);
    match raw_command_from_tokens(&tokens) {
        None => assert!(m.n == 0),
        Some(cmd) => {
            assert!(m.n >= 1);
            let nb = cmd.name().as_bytes();
            assert!(nb.len() == m.len[0]);
            let mut j = 0usize;
            while j < L {
                if j < m.len[0] {
                    assert!(nb[j] == m.buf[m.start[0] + j]);
                }
                j += 1;
            }
            let mut args = cmd.args().args();
            let mut k = 1usize;
            while k < L {
                if k < m.n {
                    match args.next() {
                        Some(Arg::Value(v)) => {
                            let vb = v.as_bytes();
                            assert!(vb.len() == m.len[k]);
                            let mut j = 0usize;
                            while j < L {
                                if j < m.len[k] {
                                    assert!(vb[j] == m.buf[m.start[k] + j]);
                                }
                                j += 1;
                            }
                        }
                        _ => assert!(false),
                    }
                }
                k += 1;
            }
            assert!(args.next().is_none());
        }
    }
    kani::cover!(n < 5 || m.n == 3, "name and two arguments");
    kani::cover!(n < 4 || (m.n == 2 && m.len[1] == 0), "empty argument");
    kani::cover!(n > 0 || m.n == 0, "no command");
}

macro_rules! tok_len {
    ($a:ident, $b:ident, $n:expr) => {
        #[kani::proof]
        #[kani::unwind(10)]
        fn $a() {
            tokens_vs_model_body($n);
        }
        #[kani::proof]
        #[kani::unwind(10)]
        fn $b() {
            raw_command_split_body($n);
        }
    };
}
tok_len!(c07_tokens_vs_model_n0, c07_raw_command_split_n0, 0);
tok_len!(c07_tokens_vs_model_n1, c07_raw_command_split_n1, 1);
tok_len!(c07_tokens_vs_model_n2, c07_raw_command_split_n2, 2);
tok_len!(c07_tokens_vs_model_n3, c07_raw_command_split_n3, 3);
tok_len!(c07_tokens_vs_model_n4, c07_raw_command_split_n4, 4);
tok_len!(c07_tokens_vs_model_n5, c07_raw_command_split_n5, 5);
tok_len!(c07_tokens_vs_model_n6, c07_raw_command_split_n6, 6);
#[cfg(vp_thorough)]
tok_len!(c07_tokens_vs_model_n7, c07_raw_command_split_n7, 7);
#[cfg(vp_thorough)]
tok_len!(c07_tokens_vs_model_n8, c07_raw_command_split_n8, 8);

const S: usize = 3; // strings in the list
const SL: usize = 2; // bytes per string
const R: usize = S * (2 * SL + 2) + (S - 1); // rendered length bound = 20

/// Harness B: round trip.  Any list of <= S strings of <= SL bytes (any byte
/// except NUL), rendered as "..." with \" and \\ escapes and single spaces,
/// tokenises to exactly that list.
#[kani::proof]
#[kani::unwind(22)]
fn c07_round_trip() {
    let strs: [[u8; SL]; S] = kani::any();
    let lens: [usize; S] = kani::any();
    let count: usize = kani::any();
    kani::assume(count <= S);
    let mut r = [0u8; R];
    let mut o = 0usize;
    let mut k = 0usize;
    while k < S {
        kani::assume(lens[k] <= SL);
        if k < count {
            if k > 0 {
                r[o] = b' ';
                o += 1;
            }
            r[o] = b'"';
            o += 1;
            let mut j = 0usize;
            while j < SL {
                if j < lens[k] {
                    let b = strs[k][j];
                    kani::assume(b != 0);
                    if b == b'"' || b == b'\\' {
                        r[o] = b'\\';
                        o += 1;
                    }
                    r[o] = b;
                    o += 1;
                }
                j += 1;
            }
            r[o] = b'"';
            o += 1;
        }
        k += 1;
    }
    let text = unsafe { core::str::from_utf8_unchecked_mut(&mut r[..o]) };
    let tokens = Tokens::new(text);
    assert!(tokens.is_empty() == (count == 0));
    let mut it = tokens.iter();
    let mut k = 0usize;
    while k < S {
        if k < count {
            match it.next() {
                None => assert!(false),
                Some(tok) => {
                    let tb = tok.as_bytes();
                    assert!(tb.len() == lens[k]);
                    let mut j = 0usize;
                    while j < SL {
                        if j < lens[k] {
                            assert!(tb[j] == strs[k][j]);
                        }
                        j += 1;
                    }
                }
            }
        }
        k += 1;
    }
    assert!(it.next().is_none());
    kani::cover!(count == 3 && lens[0] == 0 && lens[1] == 2 && lens[2] == 0, "empty strings around a full one");
    kani::cover!(count == 2 && lens[0] == 2 && strs[0][0] == b'"' && strs[0][1] == b'\\', "quote and backslash");
    kani::cover!(count == 1 && lens[0] == 2 && strs[0][0] == b' ', "space inside");
}

/// Reachability twin.
#[kani::proof]
#[kani::unwind(10)]
fn c07_tokens_twin() {
    let (line, n) = any_line(4);
    let mut work = line;
    let text = unsafe { core::str::from_utf8_unchecked_mut(&mut work[..n]) };
    let tokens = Tokens::new(text);
    let mut it = tokens.iter();
    let a = it.next();
    let b = it.next();
    assert!(!(a.is_some() && b.is_some()), "twin: must be reported as FAILED");
}
