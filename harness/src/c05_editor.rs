//! C05 — the line editor is an ideal editor over Unicode scalar values.
//!
//! One inductive step per operation from an *arbitrary* editor state satisfying
//! `editor_inv`; the command buffer is `&mut backing[..n]` with symbolic `n`, so
//! all buffer sizes 0..=NMAX are decided by one query.
use crate::inv::*;
use embedded_cli::__verif::*;

#[cfg(not(vp_thorough))]
pub const NMAX: usize = 6;
#[cfg(vp_thorough)]
pub const NMAX: usize = 8;

pub struct St {
    pub backing: [u8; NMAX],
    pub n: usize,
    pub cursor: usize,
    pub valid: usize,
    pub count: usize,
}

pub fn any_editor_state() -> St {
    let backing: [u8; NMAX] = kani::any();
    let n: usize = kani::any();
    kani::assume(n <= NMAX);
    let valid: usize = kani::any();
    let cursor: usize = kani::any();
    kani::assume(valid <= n);
    kani::assume(editor_inv(&backing[..n], cursor, valid));
    let count = scalar_count(&backing, valid);
    St {
        backing,
        n,
        cursor,
        valid,
        count,
    }
}

fn unchanged(nb: &[u8], nc: usize, nv: usize, s: &St) -> bool {
    if nv != s.valid || nc != s.cursor {
        return false;
    }
    let mut i = 0;
    while i < NMAX {
        if i < s.valid && nb[i] != s.backing[i] {
            return false;
        }
        i += 1;
    }
    true
}

/// insert(one scalar): accepted iff it fits; lands at the cursor; nothing else moves.
#[kani::proof]
#[kani::unwind(10)]
fn c05_insert_char() {
    let s = any_editor_state();
    let c: char = kani::any();
    kani::assume(c as u32 >= 0x20);
    let mut enc = [0u8; 4];
    let l = c.encode_utf8(&mut enc).len();
    let cpos = scalar_offset(&s.backing, s.valid, s.cursor);
    let mut backing = s.backing;
    let mut ed = Editor::__verif_from_parts(&mut backing[..s.n], s.cursor, s.valid);
    let (accepted, ret_ok) = match ed.insert(unsafe { core::str::from_utf8_unchecked(&enc[..l]) }) {
        Some(r) => {
            let rb = r.as_bytes();
            let mut ok = rb.len() == l;
            let mut i = 0;
            while i < 4 {
                if i < l && ok && rb[i] != enc[i] {
                    ok = false;
                }
                i += 1;
            }
            (true, ok)
        }
        None => (false, true),
    };
    assert!(accepted == (s.valid + l <= s.n));
    assert!(ret_ok);
    let (nb, nc, nv) = ed.__verif_parts();
    if accepted {
        assert!(nv == s.valid + l && nc == s.cursor + 1);
        let mut i = 0;
        while i < NMAX {
            if i < nv {
                let want = if i < cpos {
                    s.backing[i]
                } else if i < cpos + l {
                    enc[i - cpos]
                } else {
                    s.backing[i - l]
                };
                assert!(nb[i] == want);
            }
            i += 1;
        }
        assert!(editor_inv(nb, nc, nv));
    } else {
        assert!(unchanged(nb, nc, nv, &s));
    }
    kani::cover!(accepted && s.cursor < s.count && l == 3, "3-byte scalar inserted inside");
    kani::cover!(accepted && s.cursor == 0 && s.valid > 0 && l == 4, "4-byte scalar inserted at front");
    kani::cover!(!accepted && s.valid + 1 == s.n && l == 2, "2-byte scalar rejected with one byte free");
    kani::cover!(!accepted && s.n == 0, "zero-sized buffer");
    kani::cover!(accepted && nv == s.n && s.n == NMAX, "buffer filled exactly");
}

/// insert(text of several scalars), as history recall does it.
#[kani::proof]
#[kani::unwind(10)]
fn c05_insert_text() {
    let s = any_editor_state();
    let tbuf: [u8; NMAX] = kani::any();
    let tl: usize = kani::any();
    kani::assume(tl <= NMAX);
    kani::assume(editor_inv(&tbuf, 0, tl));
    let tcount = scalar_count(&tbuf, tl);
    let cpos = scalar_offset(&s.backing, s.valid, s.cursor);
    let mut backing = s.backing;
    let mut ed = Editor::__verif_from_parts(&mut backing[..s.n], s.cursor, s.valid);
    let accepted = ed.insert(unsafe { core::str::from_utf8_unchecked(&tbuf[..tl]) }).is_some();
    assert!(accepted == (s.valid + tl <= s.n));
    let (nb, nc, nv) = ed.__verif_parts();
    if accepted {
        assert!(nv == s.valid + tl && nc == s.cursor + tcount);
        let mut i = 0;
        while i < NMAX {
            if i < nv {
                let want = if i < cpos {
                    s.backing[i]
                } else if i < cpos + tl {
                    tbuf[i - cpos]
                } else {
                    s.backing[i - tl]
                };
                assert!(nb[i] == want);
            }
            i += 1;
        }
        assert!(editor_inv(nb, nc, nv));
    } else {
        assert!(unchanged(nb, nc, nv, &s));
    }
    kani::cover!(accepted && tcount == 2 && tl == 5 && s.valid > 0, "two scalars, five bytes");
    kani::cover!(!accepted && tl > 0);
    kani::cover!(accepted && tl == 0, "empty text");
}

/// Left / Right move by one whole scalar and stop at the ends; text untouched.
#[kani::proof]
#[kani::unwind(10)]
fn c05_move() {
    let s = any_editor_state();
    let right: bool = kani::any();
    let mut backing = s.backing;
    let mut ed = Editor::__verif_from_parts(&mut backing[..s.n], s.cursor, s.valid);
    let moved = if right { ed.move_right() } else { ed.move_left() };
    let (nb, nc, nv) = ed.__verif_parts();
    if right {
        assert!(moved == (s.cursor < s.count));
        assert!(nc == if moved { s.cursor + 1 } else { s.cursor });
    } else {
        assert!(moved == (s.cursor > 0));
        assert!(nc == if moved { s.cursor - 1 } else { s.cursor });
    }
    let s2 = St { cursor: nc, ..s };
    assert!(unchanged(nb, nc, nv, &s2));
    kani::cover!(right && !moved && s.count > 0, "stop at the right end");
    kani::cover!(!right && !moved && s.count > 0, "stop at the left end");
    kani::cover!(right && moved && s.valid > s.count, "move over a multi-byte scalar");
}

/// remove(): deletes the scalar at the cursor (nothing at the end of the line).
fn check_removed(s: &St, at: usize, nb: &[u8], nc: usize, nv: usize) {
    // scalar number `at` is removed from s
    let p = scalar_offset(&s.backing, s.valid, at);
    let q = scalar_offset(&s.backing, s.valid, at + 1);
    let l = q - p;
    assert!(l >= 1 && l <= 4);
    assert!(nv == s.valid - l);
    let mut i = 0;
    while i < NMAX {
        if i < nv {
            let want = if i < p { s.backing[i] } else { s.backing[i + l] };
            assert!(nb[i] == want);
        }
        i += 1;
    }
    assert!(editor_inv(nb, nc, nv));
}

#[kani::proof]
#[kani::unwind(10)]
fn c05_remove() {
    let s = any_editor_state();
    let mut backing = s.backing;
    let mut ed = Editor::__verif_from_parts(&mut backing[..s.n], s.cursor, s.valid);
    ed.remove();
    let (nb, nc, nv) = ed.__verif_parts();
    assert!(nc == s.cursor);
    if s.cursor < s.count {
        check_removed(&s, s.cursor, nb, nc, nv);
    } else {
        assert!(unchanged(nb, nc, nv, &s));
    }
    kani::cover!(s.cursor + 1 == s.count && s.valid - nv == 4, "last scalar, 4 bytes");
    kani::cover!(s.cursor == 0 && s.count >= 2 && s.valid - nv == 2, "first scalar, 2 bytes");
    kani::cover!(s.cursor == s.count && s.count > 0, "nothing to remove at the end");
}

/// Backspace as the Cli issues it: move_left() then remove().
#[kani::proof]
#[kani::unwind(10)]
fn c05_backspace() {
    let s = any_editor_state();
    let mut backing = s.backing;
    let mut ed = Editor::__verif_from_parts(&mut backing[..s.n], s.cursor, s.valid);
    let moved = ed.move_left();
    if moved {
        ed.remove();
    }
    let (nb, nc, nv) = ed.__verif_parts();
    if s.cursor > 0 {
        assert!(moved && nc == s.cursor - 1);
        check_removed(&s, s.cursor - 1, nb, nc, nv);
    } else {
        assert!(!moved);
        assert!(unchanged(nb, nc, nv, &s));
    }
    kani::cover!(s.cursor == s.count && s.count > 0 && s.valid - nv == 3, "3-byte scalar before the cursor at the end");
    kani::cover!(s.cursor > 0 && s.cursor < s.count, "inside the line");
}

/// clear, len, text, text_range(k..)
#[kani::proof]
#[kani::unwind(10)]
fn c05_observers() {
    let s = any_editor_state();
    let k: usize = kani::any();
    kani::assume(k <= NMAX + 1);
    let mut backing = s.backing;
    let mut ed = Editor::__verif_from_parts(&mut backing[..s.n], s.cursor, s.valid);
    assert!(ed.len() == s.count);
    assert!(ed.cursor() == s.cursor);
    {
        let t = ed.text();
        assert!(t.len() == s.valid);
        assert!(t.as_ptr() as usize == ed.__verif_parts().0.as_ptr() as usize);
    }
    {
        let base = ed.__verif_parts().0.as_ptr() as usize;
        let r = ed.text_range(k..);
        if k < s.count {
            let p = scalar_offset(&s.backing, s.valid, k);
            assert!(r.len() == s.valid - p);
            assert!(r.as_ptr() as usize == base + p);
        } else {
            assert!(r.len() == 0);
        }
    }
    ed.clear();
    let (nb, nc, nv) = ed.__verif_parts();
    assert!(nc == 0 && nv == 0);
    kani::cover!(k > 0 && k < s.count && s.valid > s.count);
}

/// Base case: a fresh editor satisfies the invariant and is empty.
#[kani::proof]
#[kani::unwind(10)]
fn c05_base() {
    let mut backing: [u8; NMAX] = kani::any();
    let n: usize = kani::any();
    kani::assume(n <= NMAX);
    let ed = Editor::new(&mut backing[..n]);
    let (nb, nc, nv) = ed.__verif_parts();
    assert!(nc == 0 && nv == 0 && nb.len() == n);
    assert!(editor_inv(nb, nc, nv));
}

/// Reachability twin.
#[kani::proof]
#[kani::unwind(10)]
fn c05_insert_twin() {
    let s = any_editor_state();
    let mut backing = s.backing;
    let mut ed = Editor::__verif_from_parts(&mut backing[..s.n], s.cursor, s.valid);
    let r = ed.insert("ab").is_some();
    assert!(!r, "twin: must be reported as FAILED");
}
