//! C02 — all text handed out is well-formed UTF-8.
use crate::inv::*;
use crate::model::utf8 as m;
use embedded_cli::__verif::*;

fn any_acc_state() -> ([u8; 4], u8, u8) {
    let buf: [u8; 4] = kani::any();
    let expected: u8 = kani::any();
    let partial: u8 = kani::any();
    kani::assume(acc_inv(buf, expected, partial));
    (buf, expected, partial)
}

/// Runs push_byte and copies the result out: (some, len, bytes)
fn push(acc: &mut Utf8Accum, b: u8) -> (bool, usize, [u8; 4]) {
    let mut out = [0u8; 4];
    match acc.push_byte(b) {
        Some(s) => {
            let sb = s.as_bytes();
            assert!(sb.len() >= 1 && sb.len() <= 4);
            let n = sb.len();
            let mut i = 0;
            while i < 4 {
                if i < n {
                    out[i] = sb[i];
                }
                i += 1;
            }
            (true, n, out)
        }
        None => (false, 0, out),
    }
}

/// Inductive step, no bound: arbitrary accumulator state under the invariant x all
/// 256 bytes.  Output is exactly one well-formed scalar; the state moves exactly
/// as the RFC 3629 DFA does; the invariant is preserved.
#[kani::proof]
#[kani::unwind(6)]
fn c02_acc_step() {
    let (buf, expected, partial) = any_acc_state();
    let b: u8 = kani::any();
    let mut acc = Utf8Accum::__verif_from_parts(buf, expected, partial);
    let (some, n, out) = push(&mut acc, b);
    let (b2, e2, p2) = acc.__verif_parts();
    assert!(acc_inv(b2, e2, p2));
    let pre = m::alpha(buf, expected, partial);
    let (ms, memit) = m::step(pre, b);
    assert!(some == memit);
    let post = m::alpha(b2, e2, p2);
    assert!(post == ms || (m::open_case(pre, b) && post == pre));
    if some {
        assert!(one_scalar(&out[..n]));
        assert!(out[n - 1] == b);
        if n > 1 {
            // it is the buffered prefix followed by b
            assert!(expected == 1 && partial as usize == n - 1);
            let mut i = 0;
            while i < 3 {
                if i < n - 1 {
                    assert!(out[i] == buf[i]);
                }
                i += 1;
            }
        }
    }
    kani::cover!(some && n == 4, "4-byte scalar completed");
    kani::cover!(some && n == 3 && out[0] == 0xED, "scalar next to the surrogate gap");
    kani::cover!(!some && expected > 0 && e2 == 0, "pending sequence abandoned");
    kani::cover!(!some && expected >= 2 && partial == 1 && is_cont(b) && e2 == 0, "invalid second byte dropped");
}

/// Base case: the default accumulator satisfies the invariant and is idle.
#[kani::proof]
fn c02_acc_base() {
    let acc = Utf8Accum::default();
    let (b, e, p) = acc.__verif_parts();
    assert!(acc_inv(b, e, p));
    assert!(m::alpha(b, e, p) == m::IDLE);
}

/// Reachability twin: same assumptions, final assertion deliberately false.
#[kani::proof]
#[kani::unwind(6)]
fn c02_acc_step_twin() {
    let (buf, expected, partial) = any_acc_state();
    let b: u8 = kani::any();
    let mut acc = Utf8Accum::__verif_from_parts(buf, expected, partial);
    let (some, n, out) = push(&mut acc, b);
    assert!(!(some && n == 4), "twin: must be reported as FAILED");
}

const SEQ: usize = 4;

/// Bounded form from `default()`: every sequence of SEQ arbitrary bytes.  Every
/// string handed out is one well-formed scalar, and the emissions are exactly the
/// DFA's.  Independent of `acc_inv` / `alpha`.
#[kani::proof]
#[kani::unwind(6)]
fn c02_acc_seq4() {
    let bytes: [u8; SEQ] = kani::any();
    let mut acc = Utf8Accum::default();
    let mut ms = m::IDLE;
    // set once the stream has left the part of the statement that fixes the state
    let mut open = false;
    let mut i = 0;
    while i < SEQ {
        let (some, n, out) = push(&mut acc, bytes[i]);
        open = open || m::open_case(ms, bytes[i]);
        let (ms2, memit) = m::step(ms, bytes[i]);
        ms = ms2;
        if !open {
            assert!(some == memit);
        }
        if some {
            assert!(one_scalar(&out[..n]));
        }
        kani::cover!(i == 3 && some && n == 4, "4-byte scalar from the start");
        kani::cover!(i == 3 && some && n == 2, "2-byte scalar after two dropped bytes");
        i += 1;
    }
}

/// Resynchronisation: from any state under the invariant (idle or interrupted in
/// the middle of a sequence), feeding the encoding of any scalar value yields
/// exactly that scalar, at its last byte and not before.
#[kani::proof]
#[kani::unwind(6)]
fn c02_acc_resync() {
    let (buf, expected, partial) = any_acc_state();
    let c: char = kani::any();
    let mut enc = [0u8; 4];
    let n = c.encode_utf8(&mut enc).len();
    let mut acc = Utf8Accum::__verif_from_parts(buf, expected, partial);
    let mut i = 0;
    while i < 4 {
        if i < n {
            let (some, m, out) = push(&mut acc, enc[i]);
            if i + 1 < n {
                assert!(!some);
            } else {
                assert!(some && m == n);
                let mut k = 0;
                while k < 4 {
                    if k < n {
                        assert!(out[k] == enc[k]);
                    }
                    k += 1;
                }
            }
        }
        i += 1;
    }
    kani::cover!(expected == 2 && n == 4, "4-byte scalar after an interrupted 3-byte one");
}

/// Decoder level: from any decoder state, any byte: a `Char` carries exactly one
/// well-formed scalar >= U+0020.
#[kani::proof]
#[kani::unwind(6)]
fn c02_decoder_char_wf() {
    let (buf, expected, partial) = any_acc_state();
    let csi: bool = kani::any();
    let last: u8 = kani::any();
    let b: u8 = kani::any();
    let mut ig = InputGenerator::__verif_from_parts(
        csi,
        last,
        Utf8Accum::__verif_from_parts(buf, expected, partial),
    );
    match ig.accept(b) {
        Some(Input::Char(s)) => {
            let sb = s.as_bytes();
            assert!(sb.len() >= 1 && sb.len() <= 4);
            assert!(one_scalar(sb));
            assert!(sb[0] >= 0x20);
            kani::cover!(sb.len() == 3, "3-byte char");
        }
        _ => {}
    }
}
