//! C17 — every Unicode scalar value survives: the library's own UTF-8 arithmetic
//! agrees with the definitions for *every* scalar (a `char` is a 21-bit symbolic
//! variable; no bound).
use crate::inv::*;
use embedded_cli::__verif::utils;
use embedded_cli::__verif::*;
use embedded_cli::arguments::{Arg, ArgList};
use embedded_cli::command::RawCommand;

fn any_scalar() -> char {
    let c: char = kani::any();
    kani::assume(c as u32 >= 0x20 && c as u32 != 0x7f);
    c
}

/// concatenation of the encodings of up to three scalars: (bytes, offsets)
fn cat3(a: char, b: char, c: char) -> ([u8; 12], usize, usize, usize) {
    let mut out = [0u8; 12];
    let na = a.encode_utf8(&mut out[0..]).len();
    let nb = b.encode_utf8(&mut out[na..]).len();
    let nc = c.encode_utf8(&mut out[na + nb..]).len();
    (out, na, na + nb, na + nb + nc)
}

fn as_str(b: &[u8]) -> &str {
    // harness-side: bytes come from std's encoder, so this is sound
    unsafe { core::str::from_utf8_unchecked(b) }
}

/// encode_utf8 equals the standard encoding, for every scalar.
#[kani::proof]
#[kani::unwind(6)]
fn c17_encode() {
    let c = any_scalar();
    let mut std_buf = [0u8; 4];
    let n = c.encode_utf8(&mut std_buf).len();
    let mut buf = [0u8; 4];
    let got = utils::encode_utf8(c, &mut buf);
    let gb = got.as_bytes();
    assert!(gb.len() == n);
    let mut i = 0;
    while i < 4 {
        if i < n {
            assert!(gb[i] == std_buf[i]);
        }
        i += 1;
    }
    assert!(one_scalar(gb));
    kani::cover!(n == 1);
    kani::cover!(n == 2);
    kani::cover!(n == 3);
    kani::cover!(n == 4);
    kani::cover!(c as u32 == 0xFFFF);
    kani::cover!(c as u32 == 0x10000);
    kani::cover!(c as u32 == 0x10FFFF);
}

/// The stream decoder, fed the encoding of any scalar from idle, yields exactly it.
#[kani::proof]
#[kani::unwind(6)]
fn c17_decode() {
    let c = any_scalar();
    let mut enc = [0u8; 4];
    let n = c.encode_utf8(&mut enc).len();
    let mut ig = InputGenerator::new();
    let mut i = 0;
    while i < 4 {
        if i < n {
            match ig.accept(enc[i]) {
                None => assert!(i + 1 < n),
                Some(Input::Char(s)) => {
                    assert!(i + 1 == n);
                    let sb = s.as_bytes();
                    assert!(sb.len() == n);
                    let mut k = 0;
                    while k < 4 {
                        if k < n {
                            assert!(sb[k] == enc[k]);
                        }
                        k += 1;
                    }
                }
                Some(Input::Control(_)) => assert!(false),
            }
        }
        i += 1;
    }
    kani::cover!(n == 4);
}

/// Counting and indexing over every pair of scalars (hence every pair of encoded
/// lengths): char_count, char_byte_index.
#[kani::proof]
#[kani::unwind(10)]
fn c17_count_index() {
    let a = any_scalar();
    let b = any_scalar();
    let (buf, na, nab, _) = cat3(a, b, 'x');
    let s = as_str(&buf[..nab]);
    assert!(utils::char_count(s) == 2);
    assert!(utils::char_byte_index(s, 0) == Some(0));
    assert!(utils::char_byte_index(s, 1) == Some(na));
    assert!(utils::char_byte_index(s, 2) == None);
    assert!(utils::char_byte_index(s, 3) == None);
    let s1 = as_str(&buf[..na]);
    assert!(utils::char_count(s1) == 1);
    kani::cover!(na == 4 && nab == 5);
    kani::cover!(na == 3 && nab == 7);
}

/// char_pop_front returns the first scalar and the untouched rest.
#[kani::proof]
#[kani::unwind(10)]
fn c17_pop_front() {
    let a = any_scalar();
    let b = any_scalar();
    let (buf, na, nab, _) = cat3(a, b, 'x');
    let two: bool = kani::any();
    let end = if two { nab } else { na };
    let s = as_str(&buf[..end]);
    match utils::char_pop_front(s) {
        None => assert!(false),
        Some((c, rest)) => {
            assert!(c == a);
            assert!(rest.len() == end - na);
            assert!(rest.as_ptr() as usize == s.as_ptr() as usize + na);
        }
    }
    assert!(utils::char_pop_front("").is_none());
    kani::cover!(two && na == 4);
    kani::cover!(!two && na == 3);
}

/// common_prefix_len works on scalar boundaries: prefix x, then c1 / c2.
#[kani::proof]
#[kani::unwind(10)]
fn c17_common_prefix() {
    let x = any_scalar();
    let c1 = any_scalar();
    let c2 = any_scalar();
    let (l, nx, nl, _) = cat3(x, c1, 'x');
    let (r, _, nr, _) = cat3(x, c2, 'x');
    let got = utils::common_prefix_len(as_str(&l[..nl]), as_str(&r[..nr]));
    let want = if c1 == c2 { nl } else { nx };
    assert!(got == want);
    // one side exhausted
    assert!(utils::common_prefix_len(as_str(&l[..nx]), as_str(&r[..nr])) == nx);
    kani::cover!(c1 != c2 && nl == nr && nl - nx == 3, "different 3-byte scalars");
    kani::cover!(c1 != c2 && l[nx] == r[nx] && nl - nx == 4, "4-byte scalars sharing the lead byte");
    kani::cover!(c1 == c2 && nx == 2);
}

/// `-` followed by any scalar is that short option (and only `h` asks for help).
#[kani::proof]
#[kani::unwind(10)]
fn c17_short_option() {
    let c = any_scalar();
    kani::assume(c != '-');
    let (buf, _, n, _) = cat3('-', c, 'x');
    let raw = as_str(&buf[..n]);
    let list = ArgList::new(Tokens::from_raw(raw, false));
    let mut it = list.args();
    match it.next() {
        Some(Arg::ShortOption(o)) => assert!(o == c),
        _ => assert!(false),
    }
    assert!(it.next().is_none());
    #[cfg(feature = "help")]
    {
        let cmd = RawCommand::new("cmd", ArgList::new(Tokens::from_raw(raw, false)));
        let is_help = embedded_cli::help::HelpRequest::from_command(&cmd).is_some();
        assert!(is_help == (c == 'h'));
    }
    kani::cover!(c as u32 > 0xFFFF);
    kani::cover!(c == 'h');
}

/// History is byte-transparent for every scalar: push(enc(c)) then Up recalls it.
#[cfg(feature = "history")]
#[kani::proof]
#[kani::unwind(8)]
fn c17_history_recall() {
    let c = any_scalar();
    let mut enc = [0u8; 4];
    let n = c.encode_utf8(&mut enc).len();
    let mut h = History::new([0u8; 6]);
    h.push(as_str(&enc[..n]));
    match h.next_older() {
        None => assert!(false),
        Some(e) => {
            let eb = e.as_bytes();
            assert!(eb.len() == n);
            let mut i = 0;
            while i < 4 {
                if i < n {
                    assert!(eb[i] == enc[i]);
                }
                i += 1;
            }
        }
    }
    assert!(h.next_older().is_none());
    kani::cover!(n == 4);
    kani::cover!(n == 1);
}

/// The `error: unexpected option: -c` line carries every scalar unchanged.
#[kani::proof]
#[kani::unwind(32)]
fn c17_error_line() {
    use crate::sinks::ExpectSink;
    use embedded_cli::cli::CliBuilder;
    let c = any_scalar();
    let mut enc = [0u8; 4];
    let n = c.encode_utf8(&mut enc).len();
    const R: usize = 40;
    let mut e = [0u8; R];
    let head = b"$ error: unexpected option: -";
    let mut l = 0;
    while l < head.len() {
        e[l] = head[l];
        l += 1;
    }
    let mut i = 0;
    while i < 4 {
        if i < n {
            e[l] = enc[i];
            l += 1;
        }
        i += 1;
    }
    e[l] = b'\r';
    e[l + 1] = b'\n';
    l += 2;
    let mut cli = CliBuilder::default()
        .writer(ExpectSink::<R>::new(e, l))
        .command_buffer([0u8; 4])
        .history_buffer([0u8; 4])
        .build()
        .unwrap();
    cli.__verif_process_error(embedded_cli::service::ParseError::UnexpectedShortOption { name: c }).unwrap();
    assert!(cli.__verif_writer().ok(), "C17: the option character is printed unchanged");
    assert!(cli.__verif_writer().pending == 0, "C15: flushed");
    kani::cover!(n == 3);
}

/// Reachability twin.
#[kani::proof]
#[kani::unwind(6)]
fn c17_encode_twin() {
    let c = any_scalar();
    let mut buf = [0u8; 4];
    let got = utils::encode_utf8(c, &mut buf);
    assert!(got.len() != 4, "twin: must be reported as FAILED");
}
