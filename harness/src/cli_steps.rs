//! Cli-level one-step harnesses: one key from an arbitrary `CliInv` state through
//! the per-key entries `__verif_on_control` / `__verif_on_text` (the body of
//! `process_byte` behind the decoder; the glue harness ties them to the public
//! entry).  Each property instantiates the step with its own sink and oracle.
use crate::cli_common::*;
use crate::inv::*;
use crate::model::args as ma;
use crate::model::history as mh;
use crate::sinks::*;
use core::convert::Infallible;
use embedded_cli::__verif::*;
use embedded_cli::cli::CliHandle;
use embedded_cli::command::RawCommand;
use embedded_io::Write;

/// Press a control key with a recording handler.  Returns (result, what the handler saw).
pub fn press<W: Write>(cli: &mut CliT<W>, key: Key) -> (Result<(), W::Error>, Seen<N, N1>) {
    let mut seen = Seen::<N, N1>::new();
    let r = {
        let mut p = RawCommand::processor(|_h: &mut CliHandle<'_, W, W::Error>, c: RawCommand<'_>| {
            seen.record(&c);
            Ok(())
        });
        cli.__verif_on_control::<RawCommand<'_>, _>(control_of(key), &mut p)
    };
    (r, seen)
}

/// A scalar >= U+0020 of the given encoded length.
pub fn any_char_of_len(l: usize) -> ([u8; 4], char) {
    let c: char = kani::any();
    kani::assume(c as u32 >= 0x20);
    kani::assume(c.len_utf8() == l);
    let mut enc = [0u8; 4];
    c.encode_utf8(&mut enc);
    (enc, c)
}

pub fn expected_line(pre: &Pre, key: Key) -> (Line, Option<usize>) {
    match key {
        Key::Backspace => (ideal_backspace(pre), pre.hcursor),
        Key::Forward => (ideal_move(pre, true), pre.hcursor),
        Key::Back => (ideal_move(pre, false), pre.hcursor),
        #[cfg(feature = "history")]
        Key::Up => ideal_navigate(pre, true),
        #[cfg(feature = "history")]
        Key::Down => ideal_navigate(pre, false),
        #[cfg(not(feature = "history"))]
        Key::Up | Key::Down => (line_of(pre), pre.hcursor),
        _ => (line_of(pre), pre.hcursor),
    }
}

fn history_unchanged(pre: &Pre, p: &Post) -> bool {
    if p.hused != pre.hused {
        return false;
    }
    let mut i = 0;
    while i < H {
        if i < pre.hused && p.hbuf[i] != pre.hbuf[i] {
            return false;
        }
        i += 1;
    }
    true
}

/// C01(a) + C05/C10 at Cli level + C15 for one non-Enter, non-Tab control key:
/// the handler is not entered, the line is the ideal editor's / the reference
/// history's, history content is untouched, everything written is flushed, CliInv holds.
pub fn cheap_key_body(key: Key) {
    let pre = any_pre();
    let mut cli = build(&pre, CountSink::new());
    let (r, seen) = press(&mut cli, key);
    assert!(r.is_ok());
    assert!(seen.calls == 0, "C01: only Enter dispatches");
    let p = post(&cli);
    let (want, want_hc) = expected_line(&pre, key);
    assert!(line_eq(&p, &want), "C05/C10: line equals the ideal editor's");
    assert!(history_unchanged(&pre, &p));
    #[cfg(feature = "history")]
    assert!(p.hcursor == want_hc, "C10: navigation position");
    assert!(cli.__verif_writer().pending == 0, "C15: flushed");
    assert!(post_inv(&p));
    let moved = !line_eq(&p, &line_of(&pre));
    // without the history feature Up / Down are inert by specification (C16)
    let hist = cfg!(feature = "history");
    let inert = !hist && (key == Key::Up || key == Key::Down);
    if inert {
        assert!(!moved && cli.__verif_writer().written == 0, "C16: Up/Down do nothing without history");
    }
    // what is possible at all depends on the buffer sizes (boundary sizes are C03's runs)
    let can_move = match key {
        Key::Up => hist && H >= 2 && N >= 1,
        Key::Down => hist && N >= 1,
        _ => N >= 1,
    };
    let can_echo = match key {
        // an entry can only be recalled if it fits the command buffer (N >= 1)
        Key::Up => hist && H >= 2 && N >= 1,
        Key::Down => hist,
        _ => N >= 1,
    };
    kani::cover!(!can_move || moved, "the key changed the line or the cursor");
    kani::cover!(!moved, "the key changed nothing");
    kani::cover!(!can_echo || cli.__verif_writer().written > 0, "something was echoed");
}

macro_rules! cheap_key {
    ($name:ident, $key:expr) => {
        #[kani::proof]
        #[kani::unwind(7)]
        fn $name() {
            cheap_key_body($key);
        }
    };
}

cheap_key!(key_backspace, Key::Backspace);
cheap_key!(key_forward, Key::Forward);
cheap_key!(key_back, Key::Back);
cheap_key!(key_up, Key::Up);
cheap_key!(key_down, Key::Down);

/// Typing one scalar of encoded length L.
pub fn char_key_body(l: usize) {
    let pre = any_pre();
    let (enc, c) = any_char_of_len(l);
    let mut cli = build(&pre, CountSink::new());
    let text = unsafe { core::str::from_utf8_unchecked(&enc[..l]) };
    let r = cli.__verif_on_text(text);
    assert!(r.is_ok());
    let p = post(&cli);
    let want = ideal_insert(&pre, &enc, l);
    assert!(line_eq(&p, &want), "C05: character inserted at the cursor iff it fits");
    assert!(history_unchanged(&pre, &p) && p.hcursor == pre.hcursor);
    assert!(cli.__verif_writer().pending == 0, "C15: flushed");
    assert!(post_inv(&p));
    let accepted = pre.valid + l <= N;
    assert!((cli.__verif_writer().written > 0) == accepted, "a rejected character echoes nothing");
    kani::cover!(N < l + 1 || (accepted && pre.cursor < pre.count), "inserted inside");
    kani::cover!(N < l || (accepted && pre.cursor == pre.count), "appended");
    kani::cover!(N == 0 || !accepted, "rejected");
}

macro_rules! char_key {
    ($name:ident, $l:expr) => {
        #[kani::proof]
        #[kani::unwind(7)]
        fn $name() {
            char_key_body($l);
        }
    };
}
char_key!(key_char1, 1);
char_key!(key_char2, 2);
char_key!(key_char3, 3);
char_key!(key_char4, 4);


/// history after submitting the pre-state's line: (expected buffer, accepted)
#[cfg(feature = "history")]
pub fn history_after_enter(pre: &Pre) -> (mh::Hist<H>, bool) {
    let m = mh::Hist::<H> {
        buf: pre.hbuf,
        used: pre.hused,
    };
    mh::push(&m, H, &pre.ebuf, pre.valid)
}

pub fn history_as_expected(pre: &Pre, p: &Post) -> bool {
    #[cfg(feature = "history")]
    {
        let (want, accepted) = history_after_enter(pre);
        if p.hused != want.used {
            return false;
        }
        let mut i = 0;
        while i < H {
            if i < want.used && p.hbuf[i] != want.buf[i] {
                return false;
            }
            i += 1;
        }
        if accepted {
            return p.hcursor.is_none();
        }
        return p.hcursor.is_none() || p.hcursor == pre.hcursor;
    }
    #[cfg(not(feature = "history"))]
    true
}

/// C01(b): Enter from an arbitrary CliInv state.  The handler is entered exactly
/// once iff the line has a token and is not help-shaped, and sees exactly the
/// reference tokens; afterwards the line is empty, the submitted text is in the
/// history, and the current terminal row holds exactly one fresh prompt.
///
/// With the `help` feature on, the argument pipeline is too large to be compared
/// item by item in the same query (solver out of memory at N = 3): there the
/// handler's view is compared on the command name and the *raw* argument tokens'
/// total length, and the item-by-item comparison is done by the same harness in the
/// build without `help` and by `process_input_routing` (all features, 6 bytes).
fn key_enter_body(valid: usize) {
    let pre = any_pre_valid(valid);
    let parsed = parse_line::<N, N1>(&pre.ebuf, pre.valid);
    kani::assume(!parsed.open && !parsed.help_open);
    let mut cli = build(&pre, TailSink::<4>::new());
    let full = cfg!(not(feature = "help"));
    let mut seen = Seen::<N, N1>::new();
    let r = {
        let mut p = RawCommand::processor(|_h: &mut CliHandle<'_, TailSink<4>, Infallible>, c: RawCommand<'_>| {
            if full {
                seen.record(&c);
            } else {
                seen.record_name(&c);
            }
            Ok(())
        });
        cli.__verif_on_control::<RawCommand<'_>, _>(ControlInput::Enter, &mut p)
    };
    assert!(r.is_ok());
    let help = cfg!(feature = "help") && parsed.help_shaped;
    let dispatch = parsed.ntok >= 1 && !help;
    assert!(seen.calls == if dispatch { 1 } else { 0 }, "C01: handler entered exactly once iff a non-help command was submitted");
    if dispatch {
        if full {
            assert!(seen_matches(&seen, &parsed), "C01: handler saw exactly the tokens of the line");
        } else {
            assert!(name_matches(&seen, &parsed), "C01: handler saw exactly the command name of the line");
        }
    }
    let p = post(&cli);
    assert!(p.valid == 0 && p.cursor == 0, "C01: line empty afterwards");
    assert!(history_as_expected(&pre, &p), "C10: Enter records exactly the submitted text");
    assert!(post_inv(&p));
    let w = cli.__verif_writer();
    assert!(w.lfs >= 1 && w.tail_is(PROMPTS[pre.prompt]), "C01: one fresh prompt on a new row");
    assert!(w.pending == 0, "C15: flushed");
    kani::cover!(valid < 3 || (dispatch && parsed.ntok == 2), "command with one argument");
    kani::cover!(valid < 1 || (!dispatch && pre.valid > 0), "blank line is not dispatched");
    kani::cover!(valid < 2 || (dispatch && parsed.name_len == 0), "empty quoted command name");
    kani::cover!(valid < 4 || cfg!(not(feature = "help")) || help, "help request answered by the library");
    kani::cover!(valid > 0 || !dispatch, "empty line");
}

macro_rules! enter_len {
    ($name:ident, $v:expr) => {
        #[kani::proof]
        // from N = 4 on help-shaped lines exist (`x -h`): the error text "unknown command"
        // (15 bytes) is scanned for line feeds by the Writer
        #[cfg_attr(any(vp_n4, vp_n5), kani::unwind(17))]
        #[cfg_attr(not(any(vp_n4, vp_n5)), kani::unwind(8))]
        fn $name() {
            key_enter_body($v);
        }
    };
}
/// Enter from an arbitrary CliInv state, history side only: whatever the history
/// holds, exactly the submitted text is recorded (dedupe / eviction / rejects as in
/// C10), the line is cleared and CliInv holds again.  The handler's view is the
/// subject of `key_enter_v*` (run with a zero-sized history buffer so that the two
/// halves of Enter fit into memory separately).
fn key_enter_history_body(valid: usize) {
    let mut pre = any_pre_valid(valid);
    // the line itself is fixed (`a`, `ab`, ...): this harness is about what Enter does
    // to an ARBITRARY history; arbitrary lines are key_enter_v*'s subject
    let mut i = 0;
    while i < N {
        if i < valid {
            pre.ebuf[i] = b'a' + i as u8;
        }
        i += 1;
    }
    let mut cli = build(&pre, CountSink::new());
    let mut calls = 0usize;
    let r = {
        let mut p = RawCommand::processor(|_h: &mut CliHandle<'_, CountSink, Infallible>, _c: RawCommand<'_>| {
            calls += 1;
            Ok(())
        });
        cli.__verif_on_control::<RawCommand<'_>, _>(ControlInput::Enter, &mut p)
    };
    assert!(r.is_ok());
    assert!(calls <= 1, "C01: at most one dispatch");
    let p = post(&cli);
    assert!(p.valid == 0 && p.cursor == 0, "C01: line empty afterwards");
    assert!(history_as_expected(&pre, &p), "C10: Enter records exactly the submitted text");
    assert!(post_inv(&p));
    assert!(cli.__verif_writer().pending == 0, "C15: flushed");
    kani::cover!(valid != 1 || (pre.hused == 0 && p.hused == 2), "recorded into an empty history");
    kani::cover!(valid != 1 || (pre.hused == H && p.hused < H), "older entries evicted");
    kani::cover!(valid != 1 || (pre.hused > 0 && p.hused == pre.hused && pre.hcursor.is_some()), "duplicate: navigation reset");
    kani::cover!(valid != 3 || p.hused == pre.hused, "too long to be recorded");
}

macro_rules! enter_hist {
    ($name:ident, $v:expr) => {
        #[kani::proof]
        #[kani::unwind(8)]
        fn $name() {
            key_enter_history_body($v);
        }
    };
}
enter_hist!(key_enter_history_v1, 1);
enter_hist!(key_enter_history_v2, 2);
enter_hist!(key_enter_history_v3, 3);

/// Enter without any functional oracle (C03 at the boundary sizes with a non-empty
/// history buffer, where the oracles of key_enter_v* do not fit into memory): only
/// Kani's own checks and the representation invariant afterwards.
fn enter_plain_body(valid: usize) {
    let pre = any_pre_valid(valid);
    let mut cli = build(&pre, CountSink::new());
    let r = {
        let mut p = RawCommand::processor(|_h: &mut CliHandle<'_, CountSink, Infallible>, _c: RawCommand<'_>| Ok(()));
        cli.__verif_on_control::<RawCommand<'_>, _>(ControlInput::Enter, &mut p)
    };
    assert!(r.is_ok());
    let p = post(&cli);
    assert!(post_inv(&p));
    kani::cover!(p.valid == 0);
}

macro_rules! enter_plain {
    ($name:ident, $v:expr) => {
        #[kani::proof]
        #[kani::unwind(8)]
        fn $name() {
            enter_plain_body($v);
        }
    };
}
enter_plain!(enter_plain_v0, 0);
enter_plain!(enter_plain_v1, 1);
enter_plain!(enter_plain_v2, 2);

enter_len!(key_enter_v0, 0);
enter_len!(key_enter_v1, 1);
enter_len!(key_enter_v2, 2);
enter_len!(key_enter_v3, 3);
#[cfg(any(vp_n4, vp_n5))]
enter_len!(key_enter_v4, 4);
#[cfg(vp_n5)]
enter_len!(key_enter_v5, 5);

/// Tab at Cli level with the raw command set (only the built-in `help` can match).
#[kani::proof]
#[kani::unwind(8)]
fn key_tab() {
    let pre = any_pre();
    let mut cli = build(&pre, CountSink::new());
    let (r, seen) = press(&mut cli, Key::Tab);
    assert!(r.is_ok());
    assert!(seen.calls == 0, "C01: only Enter dispatches");
    let p = post(&cli);
    assert!(post_inv(&p));
    assert!(history_unchanged(&pre, &p) && p.hcursor == pre.hcursor);
    assert!(cli.__verif_writer().pending == 0, "C15: flushed");
    // completion never alters or removes non-blank characters
    let mut i = 0;
    while i < N {
        if i < pre.valid && pre.ebuf[i] != b' ' {
            assert!(i < p.valid && p.ebuf[i] == pre.ebuf[i]);
        }
        i += 1;
    }
    #[cfg(not(feature = "autocomplete"))]
    assert!(line_eq(&p, &line_of(&pre)), "C16: Tab does nothing without autocomplete");
    #[cfg(feature = "autocomplete")]
    {
        // whatever was added is a continuation towards `help` (+ blank)
        let changed = !line_eq(&p, &line_of(&pre));
        if changed {
            assert!(p.valid >= pre.valid || pre.cursor < pre.count);
            assert!(p.cursor == scalar_count(&p.ebuf, p.valid));
        }
        kani::cover!(N < 4 || changed, "completed towards help");
    }
    kani::cover!(N == 0 || (pre.valid > 0 && line_eq(&p, &line_of(&pre))), "nothing to complete");
}

// ----------------------------------------------------------------------------- routing at larger bounds

const PL: usize = 12;
const PL1: usize = PL + 1;

fn fixed_pre() -> Pre {
    Pre {
        ebuf: [0; N],
        cursor: 0,
        valid: 0,
        count: 0,
        hbuf: [0; H],
        hcursor: None,
        hused: 0,
        prompt: 1,
    }
}

/// `process_input` (what Enter does after tokenising) on every token buffer of
/// <= 6 well-formed bytes: the handler is entered exactly once iff there is a
/// token and the line is not a help request (C01 / C12 routing), and sees name
/// and arguments exactly as the reference classifies them.
/// `process_input` (what Enter does after tokenising) on a set of token-list
/// templates that covers every routing case of the statement, each with its free
/// position (`?`) filled by a letter: the handler is entered exactly once iff the list is non-empty and not a
/// help request, and sees the command name and item count; help-shaped lists are
/// answered by the library.  (The request predicate itself is decided for *every*
/// token buffer of <= 6 bytes by C12's c12_request_predicate_n*; with fully symbolic
/// buffers this glue query did not finish in 15 minutes at 4 bytes.)
const TEMPLATES: [&[u8]; 14] = [
    b"help",
    b"help\0?",
    b"help\0?\0-h",
    b"?\0-h",
    b"?\0--help",
    b"?\0-a?h",
    b"?\0--\0-h",
    b"?\0--\0--help",
    b"?\0x\0--helpx",
    b"?",
    b"?\0?",
    b"hel?",
    b"?\0-?",
    b"",
];

fn process_input_routing_body(which: usize, dispatch_with_help: bool) {
    let mut raw = [0u8; PL];
    let t = TEMPLATES[which];
    let n = t.len();
    // the free position is filled with a fixed letter: with a symbolic byte one template
    // took > 6 minutes; the byte-level quantification is C12's / C08's / C07's
    let free: u8 = b'x';
    let mut i = 0;
    while i < PL {
        if i < n {
            raw[i] = if t[i] == b'?' { free } else { t[i] };
        }
        i += 1;
    }
    let is_empty = n == 0;
    let parsed = parse_raw::<PL, PL1>(&raw, n);
    kani::assume(!parsed.help_open);
    let mut cli = build(&fixed_pre(), CountSink::new());
    let text = unsafe { core::str::from_utf8_unchecked(&raw[..n]) };
    let base = text.as_ptr() as usize;
    // what the handler saw, by position in the token buffer: name, number of items, first item
    let mut calls = 0usize;
    let mut name_off = 0usize;
    let mut name_len = 0usize;
    let mut nitems = 0usize;
    let mut first_kind = 255u8;
    let mut first_off = 0usize;
    let mut first_len = 0usize;
    let mut first_scalar = 0u32;
    let r = {
        let mut p = RawCommand::processor(|_h: &mut CliHandle<'_, CountSink, Infallible>, c: RawCommand<'_>| {
            calls += 1;
            name_len = c.name().len();
            name_off = c.name().as_ptr() as usize - base;
            let mut it = c.args().args();
            let mut k = 0;
            while k < PL1 {
                match it.next() {
                    None => {}
                    Some(a) => {
                        if k == 0 {
                            match a {
                                embedded_cli::arguments::Arg::Value(v) => {
                                    first_kind = ma::VALUE;
                                    first_len = v.len();
                                    first_off = v.as_ptr() as usize - base;
                                }
                                embedded_cli::arguments::Arg::LongOption(v) => {
                                    first_kind = ma::LONG;
                                    first_len = v.len();
                                    first_off = v.as_ptr() as usize - base;
                                }
                                embedded_cli::arguments::Arg::ShortOption(ch) => {
                                    first_kind = ma::SHORT;
                                    first_scalar = ch as u32;
                                }
                                embedded_cli::arguments::Arg::DoubleDash => first_kind = ma::DD,
                            }
                        }
                        nitems = k + 1;
                    }
                }
                k += 1;
            }
            Ok(())
        });
        cli.__verif_process_input::<RawCommand<'_>, _>(Tokens::from_raw(text, is_empty), &mut p)
    };
    assert!(r.is_ok());
    let help = cfg!(feature = "help") && parsed.help_shaped;
    let dispatch = !is_empty && !help;
    assert!(calls == if dispatch { 1 } else { 0 }, "C01/C12: handler entered exactly once iff a non-help command was submitted");
    if dispatch {
        // name = first token, arguments = the remaining tokens (classified as C08 says)
        assert!(name_len == parsed.name_len && (name_len == 0 || name_off == 0), "C01: handler saw exactly the command name");
        assert!(nitems == parsed.nitems, "C01: handler saw exactly the argument items of the line");
        if parsed.nitems > 0 {
            let shift = parsed.name_len + 1;
            assert!(first_kind == parsed.items.kind[0], "C01: first argument item");
            if first_kind == ma::SHORT {
                assert!(first_scalar == parsed.items.scalar[0], "C01: first argument item");
            } else if first_kind != ma::DD {
                assert!(first_len == parsed.items.len[0] && (first_len == 0 || first_off == shift + parsed.items.off[0]), "C01: first argument item");
            }
        }
    }
    assert!(cli.__verif_writer().pending == 0, "C15: flushed");
    // with the raw command set, help for any command is `error: unknown command`; `help` alone lists nothing
    if help && !is_empty {
        let is_help_alone = parsed.ntok == 1;
        assert!((cli.__verif_writer().written == 0) == is_help_alone, "C12: unknown command is answered with an error line");
    }
    // the expected routing of this template, stated independently of the reference predicate
    if cfg!(feature = "help") {
        assert!(dispatch == dispatch_with_help, "C12: routing of this template");
    } else {
        assert!(dispatch == !is_empty, "C16: without the help feature every command reaches the handler");
    }
    kani::cover!(calls == if dispatch { 1 } else { 0 }, "routing decided");
}

macro_rules! routing_tpl {
    ($name:ident, $w:expr, $d:expr) => {
        #[kani::proof]
        #[kani::unwind(17)]
        fn $name() {
            process_input_routing_body($w, $d);
        }
    };
}
routing_tpl!(routing_help, 0, false);
routing_tpl!(routing_help_cmd, 1, false);
routing_tpl!(routing_help_cmd_dash_h, 2, false);
routing_tpl!(routing_dash_h, 3, false);
routing_tpl!(routing_long_help, 4, false);
routing_tpl!(routing_cluster_h, 5, false);
routing_tpl!(routing_dash_h_after_dd, 6, true);
routing_tpl!(routing_long_help_after_dd, 7, true);
routing_tpl!(routing_helpx, 8, true);
routing_tpl!(routing_name_only, 9, true);
routing_tpl!(routing_name_value, 10, true);
routing_tpl!(routing_almost_help, 11, true);
routing_tpl!(routing_other_short, 12, true);
routing_tpl!(routing_empty, 13, false);

/// Reachability twin for the Cli steps.
#[kani::proof]
#[kani::unwind(8)]
fn key_enter_twin() {
    let pre = any_pre_valid(1);
    let mut cli = build(&pre, CountSink::new());
    let (r, seen) = press(&mut cli, Key::Enter);
    assert!(seen.calls == 0, "twin: must be reported as FAILED");
}

// ----------------------------------------------------------------------------- the other API calls

/// Cli::write / Cli::set_prompt from ANY CliInv state with the counting sink:
/// the line is untouched and everything written has been flushed.
#[kani::proof]
#[kani::unwind(7)]
fn api_write_set_prompt() {
    let pre = any_pre();
    let which: u8 = kani::any();
    kani::assume(which < 3);
    let new_prompt: usize = kani::any();
    kani::assume(new_prompt < 3);
    let out: [u8; 2] = kani::any();
    let ol: usize = kani::any();
    kani::assume(ol <= 2 && (out[0] == b'x' || out[0] == b'\n') && (out[1] == b'x' || out[1] == b'\n'));
    let mut cli = build(&pre, CountSink::new());
    let r = match which {
        0 => cli.set_prompt(PROMPTS[new_prompt]),
        1 => cli.write(|w| w.write_str(unsafe { core::str::from_utf8_unchecked(&out[..ol]) })),
        _ => cli.write(|w| w.writeln_str(unsafe { core::str::from_utf8_unchecked(&out[..ol]) })),
    };
    assert!(r.is_ok());
    let p = post(&cli);
    assert!(line_eq(&p, &line_of(&pre)), "C13: writing leaves the line and the cursor intact");
    assert!(history_unchanged(&pre, &p) && p.hcursor == pre.hcursor);
    assert!(post_inv(&p));
    assert!(cli.__verif_writer().pending == 0, "C15: flushed");
    assert!(cli.__verif_writer().written > 0);
    kani::cover!(which == 0);
    kani::cover!(which == 2 && ol == 0);
}

/// CliBuilder::build(): the prompt is printed and flushed, state is the base case of CliInv.
#[kani::proof]
#[kani::unwind(7)]
fn api_build() {
    let prompt: usize = kani::any();
    kani::assume(prompt < 3);
    let r = embedded_cli::cli::CliBuilder::default()
        .writer(TailSink::<4>::new())
        .command_buffer([0u8; N])
        .history_buffer([0u8; H])
        .prompt(PROMPTS[prompt])
        .build();
    match r {
        Err(_) => assert!(false),
        Ok(cli) => {
            let p = post(&cli);
            assert!(p.valid == 0 && p.cursor == 0 && p.hused == 0 && p.hcursor.is_none());
            assert!(post_inv(&p));
            let w = cli.__verif_writer();
            assert!(w.lfs == 0 && w.tail_is(PROMPTS[prompt]), "C01: the prompt is shown");
            assert!(w.pending == 0, "C15: flushed");
            kani::cover!(prompt == 2);
        }
    }
}

/// The `error: ...` line for every kind of parse error (symbolic payloads): printed
/// once, terminated by CR LF, flushed; the handler side is not involved.
#[kani::proof]
#[kani::unwind(32)]
fn api_process_error() {
    use embedded_cli::service::ParseError;
    let pre = any_pre_valid(0);
    let which: u8 = kani::any();
    kani::assume(which < 6);
    let c: char = kani::any();
    kani::assume(c as u32 >= 0x20);
    let mut cli = build(&pre, TailSink::<4>::new());
    let r = match which {
        0 => cli.__verif_process_error(ParseError::UnknownCommand),
        1 => cli.__verif_process_error(ParseError::UnexpectedShortOption { name: c }),
        2 => cli.__verif_process_error(ParseError::UnexpectedArgument { value: "v" }),
        3 => cli.__verif_process_error(ParseError::UnexpectedLongOption { name: "lo" }),
        4 => cli.__verif_process_error(ParseError::MissingRequiredArgument { name: "<F>" }),
        _ => cli.__verif_process_error(ParseError::ParseValueError { value: "x", expected: "u8" }),
    };
    assert!(r.is_ok());
    let w = cli.__verif_writer();
    assert!(w.pending == 0, "C15: flushed");
    assert!(w.lfs == 1 && w.len == 0, "C09: a single `error:` line, terminated");
    assert!(w.written >= 9);
    kani::cover!(which == 1 && c as u32 > 0xffff);
    kani::cover!(which == 5);
}
