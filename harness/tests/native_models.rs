//! Native sanity tests of the reference models against the real code (run in
//! setup.sh, not part of any verdict): the models must agree with the library on
//! the repository's own test inputs and on small exhaustive enumerations.
#![cfg(all(feature = "history", feature = "autocomplete", feature = "help"))]
use embedded_cli::__verif::*;
use vp::model::history as mh;

const H: usize = 4;

fn texts() -> Vec<Vec<u8>> {
    let mut v = vec![vec![]];
    for a in [b'a', b'b', b'c'] {
        v.push(vec![a]);
        for b in [b'a', b'b', b'c'] {
            v.push(vec![a, b]);
        }
    }
    v
}

#[test]
fn history_model_vs_real_three_pushes() {
    let ts = texts();
    for t1 in &ts {
        for t2 in &ts {
            for t3 in &ts {
                let mut m = mh::Hist::<H> { buf: [0; H], used: 0 };
                let mut h = History::new([0u8; H]);
                for t in [t1, t2, t3] {
                    let mut tb = [0u8; 2];
                    tb[..t.len()].copy_from_slice(t);
                    let (m2, _) = mh::push(&m, H, &tb, t.len());
                    m = m2;
                    h.push(core::str::from_utf8(t).unwrap());
                    let (nb, _nc, nu) = h.__verif_parts();
                    assert_eq!(nu, m.used, "used after pushes {:?} {:?} {:?} (at {:?}): real {:?} model {:?}", t1, t2, t3, t, &nb[..nu], &m.buf[..m.used]);
                    assert_eq!(&nb[..nu], &m.buf[..m.used], "bytes after pushes {:?} {:?} {:?}", t1, t2, t3);
                }
            }
        }
    }
}

use vp::model::args as ma;
use vp::model::tokens as mt;

const TL: usize = 40;

fn model_tokens(line: &str) -> Vec<Vec<u8>> {
    let mut buf = [0u8; TL];
    buf[..line.len()].copy_from_slice(line.as_bytes());
    let t = mt::tokenize::<TL>(&buf, line.len());
    assert!(!t.open);
    (0..t.n).map(|k| t.buf[t.start[k]..t.start[k] + t.len[k]].to_vec()).collect()
}

fn real_tokens(line: &str) -> Vec<Vec<u8>> {
    let mut owned = line.to_string();
    let tokens = Tokens::new(owned.as_mut_str());
    tokens.iter().map(|s| s.as_bytes().to_vec()).collect()
}

/// the repository's own tokenizer test inputs, plus the quoting corner cases
#[test]
fn tokenizer_model_vs_real_on_repo_inputs() {
    let lines = [
        "", "   ", "abc", "  abc ", "  abc  def ", "  abc  def gh ", "abc  def gh", r#""abc""#, r#"  "abc" "#,
        r#"  "  abc " "#, r#"  "  abc  "#, r#"  " abc"   "de fg " "  he  yw""#, r#"  "ab \"c\\d\" " "#, r#""abc\\""#,
        r#""" a"#, r#"a """#, r#""" """#, r#""a"b"#, r#"a"b c"#, "set \u{4f50} \"\u{416} x\"",
    ];
    for l in lines {
        assert_eq!(model_tokens(l), real_tokens(l), "line {:?}", l);
    }
}

/// the repository's argument test line through the classifier model
#[test]
fn classifier_model_on_repo_input() {
    let raw = "arg1\0--option1\0val1\0-f\0val2\0-vs\0--\0--o\0-x";
    const L: usize = 48;
    const L1: usize = 49;
    let mut buf = [0u8; L];
    buf[..raw.len()].copy_from_slice(raw.as_bytes());
    let items: ma::Items<L1> = ma::classify::<L, L1>(&buf, raw.len());
    let kinds: Vec<u8> = (0..items.n).map(|k| items.kind[k]).collect();
    assert_eq!(
        kinds,
        vec![ma::VALUE, ma::LONG, ma::VALUE, ma::SHORT, ma::VALUE, ma::SHORT, ma::SHORT, ma::DD, ma::VALUE, ma::VALUE]
    );
    let list = embedded_cli::arguments::ArgList::new(Tokens::from_raw(raw, false));
    assert_eq!(list.args().count(), items.n);
}
