//! Native sanity tests of the reference models against the real code (run in
//! setup.sh, not part of any verdict): the models must agree with the library on
//! the repository's own test inputs and on small exhaustive enumerations.
use embedded_cli::__verif::*;
use vp::model::history as mh;

const H: usize = 4;

fn texts() -> Vec<Vec<u8>> {
    let mut v = vec![vec![]];
    for a in [b'a', b'b', b'c'] {
        v.push(vec![a]);
        for b in [b'a', b'b', b'c'] {
            v.push(vec![a, b]);
        }
    }
    v
}

#[test]
fn history_model_vs_real_three_pushes() {
    let ts = texts();
    for t1 in &ts {
        for t2 in &ts {
            for t3 in &ts {
                let mut m = mh::Hist::<H> { buf: [0; H], used: 0 };
                let mut h = History::new([0u8; H]);
                for t in [t1, t2, t3] {
                    let mut tb = [0u8; 2];
                    tb[..t.len()].copy_from_slice(t);
                    let (m2, _) = mh::push(&m, H, &tb, t.len());
                    m = m2;
                    h.push(core::str::from_utf8(t).unwrap());
                    let (nb, _nc, nu) = h.__verif_parts();
                    assert_eq!(nu, m.used, "used after pushes {:?} {:?} {:?} (at {:?}): real {:?} model {:?}", t1, t2, t3, t, &nb[..nu], &m.buf[..m.used]);
                    assert_eq!(&nb[..nu], &m.buf[..m.used], "bytes after pushes {:?} {:?} {:?}", t1, t2, t3);
                }
            }
        }
    }
}
