//! Public-API demonstrations of defects whose solver counterexample was too large to
//! be replayed automatically (concrete playback ran out of memory).  Each test states
//! the property on the failing session; it fails on the unrepaired tree and passes
//! after the `fix:` commit.  Run by setup.sh as a regression guard (not a verdict).
use embedded_cli::cli::{CliBuilder, CliHandle};
use embedded_cli::command::RawCommand;
use embedded_io::{ErrorType, Write};
use std::cell::RefCell;
use std::rc::Rc;

#[derive(Debug)]
struct Fault;
impl embedded_io::Error for Fault {
    fn kind(&self) -> embedded_io::ErrorKind {
        embedded_io::ErrorKind::Other
    }
}

#[derive(Clone)]
struct Sink {
    calls: Rc<RefCell<usize>>,
    fail_at: Rc<RefCell<Option<usize>>>,
    out: Rc<RefCell<Vec<u8>>>,
}
impl Sink {
    fn new() -> Self {
        Sink {
            calls: Rc::new(RefCell::new(0)),
            fail_at: Rc::new(RefCell::new(None)),
            out: Rc::new(RefCell::new(vec![])),
        }
    }
    fn step(&self) -> Result<(), Fault> {
        let c = *self.calls.borrow();
        *self.calls.borrow_mut() += 1;
        if Some(c) == *self.fail_at.borrow() {
            Err(Fault)
        } else {
            Ok(())
        }
    }
}
impl ErrorType for Sink {
    type Error = Fault;
}
impl Write for Sink {
    fn write(&mut self, b: &[u8]) -> Result<usize, Fault> {
        self.step()?;
        self.out.borrow_mut().extend_from_slice(b);
        Ok(b.len())
    }
    fn flush(&mut self) -> Result<(), Fault> {
        self.step()
    }
}

/// C14 / F7: the sink fails while the handler writes; the next Enter must not
/// dispatch the in-place-tokenised remains of the old line.
#[test]
fn c14_failed_enter_leaves_no_tokenised_line() {
    let sink = Sink::new();
    let calls = sink.calls.clone();
    let fail = sink.fail_at.clone();
    let mut cli = CliBuilder::default()
        .writer(sink)
        .command_buffer([0u8; 32])
        .history_buffer([0u8; 32])
        .build()
        .unwrap();
    let mut got: Vec<(String, Vec<String>)> = vec![];
    let mut p = RawCommand::processor(|h: &mut CliHandle<'_, Sink, Fault>, c: RawCommand<'_>| {
        let args: Vec<String> = c.args().args().map(|a| format!("{:?}", a)).collect();
        got.push((c.name().to_string(), args));
        h.writer().write_str("out")?;
        Ok(())
    });
    for &b in b"\"a b\"" {
        cli.process_byte::<RawCommand<'_>, _>(b, &mut p).unwrap();
    }
    // Enter writes CRLF (call n), then the handler's write is call n+1: fail that one
    let n = *calls.borrow();
    *fail.borrow_mut() = Some(n + 1);
    let r = cli.process_byte::<RawCommand<'_>, _>(b'\r', &mut p);
    assert!(r.is_err(), "the failure is reported");
    *fail.borrow_mut() = None;
    cli.process_byte::<RawCommand<'_>, _>(b'\r', &mut p).unwrap();
    drop(p);
    // only the line the user typed may ever be dispatched: `"a b"` = one token `a b`
    for (name, args) in &got {
        assert_eq!(name, "a b", "dispatched command name");
        assert!(args.is_empty(), "dispatched arguments {:?}", args);
    }
}
