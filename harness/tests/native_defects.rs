//! Public-API demonstrations of defects whose solver counterexample was too large to
//! be replayed automatically (concrete playback ran out of memory).  Each test states
//! the property on the failing session; it fails on the unrepaired tree and passes
//! after the `fix:` commit.  Run by setup.sh as a regression guard (not a verdict).
#![cfg(all(feature = "history", feature = "autocomplete", feature = "help"))]
use embedded_cli::cli::{CliBuilder, CliHandle};
use embedded_cli::command::RawCommand;
use embedded_io::{ErrorType, Write};
use std::cell::RefCell;
use std::rc::Rc;

#[derive(Debug)]
struct Fault;
impl embedded_io::Error for Fault {
    fn kind(&self) -> embedded_io::ErrorKind {
        embedded_io::ErrorKind::Other
    }
}

#[derive(Clone)]
struct Sink {
    calls: Rc<RefCell<usize>>,
    fail_at: Rc<RefCell<Option<usize>>>,
    out: Rc<RefCell<Vec<u8>>>,
}
impl Sink {
    fn new() -> Self {
        Sink {
            calls: Rc::new(RefCell::new(0)),
            fail_at: Rc::new(RefCell::new(None)),
            out: Rc::new(RefCell::new(vec![])),
        }
    }
    fn step(&self) -> Result<(), Fault> {
        let c = *self.calls.borrow();
        *self.calls.borrow_mut() += 1;
        if Some(c) == *self.fail_at.borrow() {
            Err(Fault)
        } else {
            Ok(())
        }
    }
}
impl ErrorType for Sink {
    type Error = Fault;
}
impl Write for Sink {
    fn write(&mut self, b: &[u8]) -> Result<usize, Fault> {
        self.step()?;
        self.out.borrow_mut().extend_from_slice(b);
        Ok(b.len())
    }
    fn flush(&mut self) -> Result<(), Fault> {
        self.step()
    }
}

/// C14 / F7: the sink fails while the handler writes; the next Enter must not
/// dispatch the in-place-tokenised remains of the old line.
#[test]
fn c14_failed_enter_leaves_no_tokenised_line() {
    let sink = Sink::new();
    let calls = sink.calls.clone();
    let fail = sink.fail_at.clone();
    let mut cli = CliBuilder::default()
        .writer(sink)
        .command_buffer([0u8; 32])
        .history_buffer([0u8; 32])
        .build()
        .unwrap();
    let mut got: Vec<(String, Vec<String>)> = vec![];
    let mut p = RawCommand::processor(|h: &mut CliHandle<'_, Sink, Fault>, c: RawCommand<'_>| {
        let args: Vec<String> = c.args().args().map(|a| format!("{:?}", a)).collect();
        got.push((c.name().to_string(), args));
        h.writer().write_str("out")?;
        Ok(())
    });
    for &b in b"\"a b\"" {
        cli.process_byte::<RawCommand<'_>, _>(b, &mut p).unwrap();
    }
    // Enter writes CRLF (call n), then the handler's write is call n+1: fail that one
    let n = *calls.borrow();
    *fail.borrow_mut() = Some(n + 1);
    let r = cli.process_byte::<RawCommand<'_>, _>(b'\r', &mut p);
    assert!(r.is_err(), "the failure is reported");
    *fail.borrow_mut() = None;
    cli.process_byte::<RawCommand<'_>, _>(b'\r', &mut p).unwrap();
    drop(p);
    // only the line the user typed may ever be dispatched: `"a b"` = one token `a b`
    for (name, args) in &got {
        assert_eq!(name, "a b", "dispatched command name");
        assert!(args.is_empty(), "dispatched arguments {:?}", args);
    }
}

/// C06 / C13 (F5): application output written while the cursor is inside the line:
/// afterwards the terminal must show prompt + line with the cursor where the editor
/// has it, so that the next typed character appears where it is inserted.
#[test]
fn c06_cursor_restored_after_write_and_set_prompt() {
    use vp::term::{TermSink, BLANK};
    for use_set_prompt in [false, true] {
        let mut cli = CliBuilder::default()
            .writer(TermSink::<16>::blank())
            .command_buffer([0u8; 8])
            .history_buffer([0u8; 8])
            .prompt("$ ")
            .build()
            .unwrap();
        let mut p = RawCommand::processor(|_h: &mut CliHandle<'_, TermSink<16>, core::convert::Infallible>, _c: RawCommand<'_>| Ok(()));
        for &b in b"ab\x1b[D" {
            cli.process_byte::<RawCommand<'_>, _>(b, &mut p).unwrap();
        }
        if use_set_prompt {
            cli.set_prompt("> ").unwrap();
        } else {
            cli.write(|w| w.write_str("x")).unwrap();
        }
        cli.process_byte::<RawCommand<'_>, _>(b'c', &mut p).unwrap();
        let (buf, cursor, valid) = cli.__verif_editor().unwrap().__verif_parts();
        assert_eq!(&buf[..valid], b"acb");
        let t = cli.__verif_writer();
        assert!(!t.bad);
        let row: String = t.cells.iter().map(|&c| char::from_u32(c).unwrap()).collect();
        let prompt = if use_set_prompt { "> " } else { "$ " };
        assert_eq!(row.trim_end_matches(char::from_u32(BLANK).unwrap()), format!("{}acb", prompt), "terminal row (set_prompt={})", use_set_prompt);
        assert_eq!(t.col, 2 + cursor, "terminal cursor column");
    }
}
