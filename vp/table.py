"""Harness table: which solver queries decide which property, with their bounds.

Each entry: name (module::fn in /verif/harness), kind (prove | twin | witness),
tier (both | quick | thorough), timeout [s], mem [GB estimate], features, cfg,
solver, bounds (free text that goes into the evidence file).
"""
import os
import re

DEFAULT_TIMEOUT = 600


class StaticCheckFailed(Exception):
    pass


COMMON_ASSUMPTIONS = [
    "Kani 0.68 MIR->goto translation, its models of core intrinsics, CBMC 6.11 unwinding/encoding and the SAT solver are trusted",
    "dev-profile MIR semantics (overflow checks and debug assertions ON); release code generation is only exercised when a counterexample is replayed",
    "private state is constructed/observed through the cfg(funbiscuit_embedded_cli_rs_verif) hooks (field in / field out, no logic)",
    "nothing outside the stated per-harness bounds is claimed",
]


def H(name, **kw):
    d = {"name": name}
    d.update(kw)
    return d


PROPS = {}

PROPS["C02"] = {
    "claim": "Utf8Accum::push_byte / InputGenerator::accept hand out only single well-formed scalars: inductive step over the whole accumulator state space x all 256 bytes (no bound), plus all 4-byte sequences from default()",
    "assumptions": [
        "inductive harnesses assume the accumulator invariant acc_inv (idle, or a viable proper prefix of one RFC 3629 scalar); base case c02_acc_base",
    ],
    "harnesses": [
        H("c02_utf8::c02_acc_step", bounds="arbitrary accumulator state under acc_inv x every byte 0..=255; no bound", exhaustive=True),
        H("c02_utf8::c02_acc_base", bounds="Utf8Accum::default()", exhaustive=True),
        H("c02_utf8::c02_acc_seq4", bounds="every sequence of 4 bytes (2^32) from default()"),
        H("c02_utf8::c02_acc_resync", bounds="arbitrary state under acc_inv x every char (all scalar values)", exhaustive=True),
        H("c02_utf8::c02_decoder_char_wf", bounds="arbitrary decoder state x every byte", exhaustive=True),
        H("c02_utf8::c02_acc_step_twin", kind="twin"),
    ],
}

PROPS["C04"] = {
    "claim": "InputGenerator::accept equals the reference automaton: inductive step over the whole decoder state x all bytes (no bound) through the abstraction alpha, plus all 5-byte (quick) / 7-byte (thorough) sequences from new() independent of alpha",
    "assumptions": ["DEL (0x7F) is left open by the statement: the reference treats it as text, like the code"],
    "harnesses": [
        H("c04_decoder::c04_decoder_step", bounds="arbitrary decoder state (csi flag, last byte, accumulator under acc_inv) x every byte; no bound", exhaustive=True),
        H("c04_decoder::c04_decoder_base", bounds="InputGenerator::new()", exhaustive=True),
        H("c04_decoder::c04_seq_from_new", tier="quick", bounds="every sequence of 5 bytes from new()"),
        H("c04_decoder::c04_terminator_count", tier="quick", bounds="every sequence of 5 bytes over {CR, LF}"),
        H("c04_decoder::c04_seq_from_new", tier="thorough", cfg=["vp_thorough"], timeout=3000, bounds="every sequence of 7 bytes from new()"),
        H("c04_decoder::c04_terminator_count", tier="thorough", cfg=["vp_thorough"], bounds="every sequence of 7 bytes over {CR, LF}"),
        H("c04_decoder::c04_decoder_step_twin", kind="twin"),
    ],
}


def select(pid, tier, seed):
    out = []
    for h in PROPS[pid]["harnesses"]:
        t = h.get("tier", "both")
        if t == "both" or t == tier:
            out.append(h)
    return out

PROPS["C17"] = {
    "claim": "encode_utf8, the stream decoder, char_count, char_byte_index, char_pop_front, common_prefix_len, short-option extraction and help detection agree with the Unicode/UTF-8 definitions for EVERY scalar value >= U+0020 except U+007F (char is a symbolic 21-bit variable; pairs/triples of scalars cover every combination of encoded lengths)",
    "assumptions": ["reference = core's char::encode_utf8 / char equality, executed symbolically alongside"],
    "harnesses": [
        H("c17_scalars::c17_encode", bounds="every scalar value; no bound", exhaustive=True),
        H("c17_scalars::c17_decode", bounds="every scalar value fed to InputGenerator::new(); no bound", exhaustive=True),
        H("c17_scalars::c17_count_index", bounds="every ordered pair of scalar values", exhaustive=True),
        H("c17_scalars::c17_pop_front", bounds="every ordered pair of scalar values", exhaustive=True),
        H("c17_scalars::c17_common_prefix", bounds="every triple of scalar values (prefix, left, right)", exhaustive=True),
        H("c17_scalars::c17_short_option", bounds="every scalar value other than '-' as a short option", exhaustive=True),
        H("c17_scalars::c17_encode_twin", kind="twin"),
    ],
}

PROPS["C07"] = {
    "claim": "Tokens::new + TokensIter equal the reference tokenizer on every line of <= 6 (quick) / <= 8 (thorough) bytes over all byte values except NUL; RawCommand::from_tokens splits name/arguments; quoted rendering of any list of <= 3 strings of <= 2 bytes round-trips",
    "assumptions": [
        "assumed away (statement silent): inside quotes a backslash followed by a byte other than quote/backslash, or by the end of the line",
        "lines longer than the bound are outside the claim (the scanner is a single-pass finite automaton, which is an argument, not a solver result)",
    ],
    "harnesses": [
        H("c07_tokens::c07_tokens_vs_model", tier="quick", bounds="every line of <= 6 bytes, all byte values but NUL", timeout=900, mem=4),
        H("c07_tokens::c07_raw_command_split", tier="quick", bounds="every line of <= 6 bytes whose later tokens do not start with '-'", timeout=900, mem=4),
        H("c07_tokens::c07_round_trip", bounds="every list of <= 3 strings of <= 2 bytes (any byte but NUL)", timeout=1500, mem=6),
        H("c07_tokens::c07_tokens_vs_model", tier="thorough", cfg=["vp_thorough"], bounds="every line of <= 8 bytes", timeout=3400, mem=10),
        H("c07_tokens::c07_raw_command_split", tier="thorough", cfg=["vp_thorough"], bounds="every line of <= 8 bytes whose later tokens do not start with '-'", timeout=3400, mem=10),
        H("c07_tokens::c07_tokens_twin", kind="twin"),
    ],
}

PROPS["C08"] = {
    "claim": "ArgsIter over every NUL-separated token buffer of <= 6 (quick) / <= 8 (thorough) well-formed UTF-8 bytes (all encoded lengths, empty tokens, empty list) yields exactly the reference classification, item by item, with string payloads compared by position (offset,length) in the buffer - which implies the re-join law",
    "assumptions": ["token buffers longer than the bound are outside the claim"],
    "harnesses": [
        H("c08_args::c08_classify_vs_model", tier="quick", bounds="every well-formed token buffer of <= 6 bytes", timeout=900, mem=4),
        H("c08_args::c08_classify_vs_model", tier="thorough", cfg=["vp_thorough"], bounds="every well-formed token buffer of <= 8 bytes", timeout=3400, mem=10),
        H("c08_args::c08_classify_twin", kind="twin"),
        H("c17_scalars::c17_pop_front", bounds="char_pop_front on every ordered pair of scalar values", exhaustive=True),
    ],
}

PROPS["C05"] = {
    "claim": "every Editor operation (insert of one scalar / of a text, move left/right, remove, Backspace = move_left+remove, clear, len, text, text_range) from ANY state satisfying the representation invariant equals the ideal editor over scalar values, byte for byte, for every buffer size 0..=6 (quick) / 0..=8 (thorough) in one query (buffer = &mut backing[..n], n symbolic); the invariant is re-established, so by induction the claim covers edit histories of any length",
    "assumptions": [
        "editor_inv: valid <= n, buf[..valid] well-formed UTF-8 without C0 controls, cursor <= scalar count (base case c05_base; every such state is reachable by typing the text and pressing Left)",
        "inserted characters are scalars >= U+0020 (the decoder never produces others, C04)",
        "buffers larger than the bound are outside the claim",
    ],
    "harnesses": [
        H("c05_editor::c05_insert_char", tier="quick", bounds="n<=6, any state, every scalar >= U+0020", timeout=900, mem=4),
        H("c05_editor::c05_insert_text", tier="quick", bounds="n<=6, any state, any well-formed text <= 6 bytes", timeout=900, mem=4),
        H("c05_editor::c05_move", tier="quick", bounds="n<=6, any state"),
        H("c05_editor::c05_remove", tier="quick", bounds="n<=6, any state"),
        H("c05_editor::c05_backspace", tier="quick", bounds="n<=6, any state"),
        H("c05_editor::c05_observers", tier="quick", bounds="n<=6, any state, any range start"),
        H("c05_editor::c05_base", tier="quick", bounds="n<=6"),
        H("c05_editor::c05_insert_char", tier="thorough", cfg=["vp_thorough"], bounds="n<=8", timeout=3400, mem=8),
        H("c05_editor::c05_insert_text", tier="thorough", cfg=["vp_thorough"], bounds="n<=8", timeout=3400, mem=8),
        H("c05_editor::c05_move", tier="thorough", cfg=["vp_thorough"], bounds="n<=8", timeout=3400),
        H("c05_editor::c05_remove", tier="thorough", cfg=["vp_thorough"], bounds="n<=8", timeout=3400, mem=8),
        H("c05_editor::c05_backspace", tier="thorough", cfg=["vp_thorough"], bounds="n<=8", timeout=3400, mem=8),
        H("c05_editor::c05_observers", tier="thorough", cfg=["vp_thorough"], bounds="n<=8", timeout=3400),
        H("c05_editor::c05_base", tier="thorough", cfg=["vp_thorough"], bounds="n<=8"),
        H("c05_editor::c05_insert_twin", kind="twin"),
    ],
}
