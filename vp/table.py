"""Harness table: which solver queries decide which property, with their bounds.

Each entry: name (module::fn in /verif/harness), kind (prove | twin | witness),
tier (both | quick | thorough), timeout [s], mem [GB estimate], features, cfg,
solver, bounds (free text that goes into the evidence file).
"""
import os
import re

DEFAULT_TIMEOUT = 600


class StaticCheckFailed(Exception):
    pass


COMMON_ASSUMPTIONS = [
    "Kani 0.68 MIR->goto translation, its models of core intrinsics, CBMC 6.11 unwinding/encoding and the SAT solver are trusted",
    "dev-profile MIR semantics (overflow checks and debug assertions ON); release code generation is only exercised when a counterexample is replayed",
    "private state is constructed/observed through the cfg(funbiscuit_embedded_cli_rs_verif) hooks (field in / field out, no logic)",
    "nothing outside the stated per-harness bounds is claimed",
]


def H(name, **kw):
    d = {"name": name}
    d.update(kw)
    return d


PROPS = {}

# ---------------------------------------------------------------------------- Cli-level steps
CLI_BOUNDS = "one key from ANY CliInv state: command buffer N=3, history buffer H=3 (all contents/cursors), prompt in {'', '$ ', 'e-acute> '}"
CLI_ASSUME = [
    "CliInv = editor_inv + history_inv (entries were editor lines, each <= N bytes) + prompt from a fixed set of three; every such state is reachable through the public API",
    "keys enter through the cfg-guarded per-key entries (__verif_on_control / __verif_on_text = body of process_byte behind the decoder); the glue harness c01 glue_* ties them to process_byte",
    "handler = a recording closure; handlers that re-enter the Cli are outside the claim",
    "lines the tokenizer statement leaves open (backslash + other byte inside quotes) and `help` followed by an option are assumed away",
]


def cli_keys(mod_prefix, names, **kw):
    out = []
    for n in names:
        d = dict(kw)
        if "char" in n:
            # typed text: the library's debug_assert on chars().count() is compiled out for these
            d["nodebug"] = True
        b = CLI_BOUNDS
        if "vp_n4" in d.get("cfg", ()):
            b = b.replace("N=3, history buffer H=3", "N=4, history buffer H=4")
        out.append(H("%s::%s" % (mod_prefix, n), bounds=b, **d))
    return out


def enter_set(prefix, tags, n=3, quick_nohelp=(2,), history_quick=(3,), **kw):
    """Enter-class harnesses.  The handler-side oracle runs with a zero-sized history
    buffer (cfg vp_h0), one instance per line length (a constant length lets the
    loops over the line fold); the history side of Enter is decided separately from
    an arbitrary history state with a fixed line (key_enter_history_v*).  Together with
    C10's push step this covers Enter from any CliInv state; each half alone fits into
    memory.  The quick tier (15 min cap per check) keeps the default-feature instances
    of every length, one instance of the build without `help`, and the history instance
    whose line is rejected; the rest is thorough."""
    out = []
    for v in range(0, n + 1):
        out.append(H("%s_v%d" % (prefix, v), tags=tags, cfg=["vp_h0"], bounds="Enter from ANY editor state with a line of exactly %d bytes (N=3), history buffer of size 0, three prompts; handler view compared on call count and command name" % v, timeout=2400, mem=7, **kw))
        out.append(H("%s_v%d" % (prefix, v), tags=tags, cfg=["vp_h0"], features=["history", "autocomplete"], tier=("both" if v in quick_nohelp else "thorough"), bounds="same, build without `help`: handler view compared item by item", timeout=2400, mem=6, **kw))
    for v in (1, 2, 3):
        out.append(H("cli_steps::key_enter_history_v%d" % v, tags=tags, tier=("both" if v in history_quick else "thorough"), bounds="Enter with the fixed line `%s` from ANY history state (H=3) and any cursor / prompt: history side" % ("abc"[:v]), timeout=2400, mem=8, **kw))
    return out


ROUTING = ["routing_help", "routing_help_cmd", "routing_help_cmd_dash_h", "routing_dash_h", "routing_long_help", "routing_cluster_h",
           "routing_dash_h_after_dd", "routing_long_help_after_dd", "routing_helpx", "routing_name_only", "routing_name_value",
           "routing_almost_help", "routing_other_short", "routing_empty"]


def routing_set(tags, lens=None, **kw):
    return [H("cli_steps::" + r, tags=tags, bounds="process_input on the token-list template `%s` (free position filled with a letter): dispatch count, handler's view (name, item count, first item), help routing, output flushed" % r[8:], timeout=1200, mem=5, **kw) for r in ROUTING]



PROPS["C02"] = {
    "claim": "Utf8Accum::push_byte / InputGenerator::accept hand out only single well-formed scalars: inductive step over the whole accumulator state space x all 256 bytes (no bound), plus all 4-byte sequences from default()",
    "assumptions": [
        "inductive harnesses assume the accumulator invariant acc_inv (idle, or a viable proper prefix of one RFC 3629 scalar); base case c02_acc_base",
    ],
    "harnesses": [
        H("c02_utf8::c02_acc_step", bounds="arbitrary accumulator state under acc_inv x every byte 0..=255; no bound", exhaustive=True),
        H("c02_utf8::c02_acc_base", bounds="Utf8Accum::default()", exhaustive=True),
        H("c02_utf8::c02_acc_seq4", bounds="every sequence of 4 bytes (2^32) from default()"),
        H("c02_utf8::c02_acc_resync", bounds="arbitrary state under acc_inv x every char (all scalar values)", exhaustive=True),
        H("c02_utf8::c02_decoder_char_wf", bounds="arbitrary decoder state x every byte", exhaustive=True),
        # back-end cross-check: the unbounded kernels decided again with MiniSat instead of CaDiCaL
        H("c02_utf8::c02_acc_step", tier="thorough", solver="minisat", bounds="same query, SAT solver MiniSat", exhaustive=True),
        H("c02_utf8::c02_acc_seq4", tier="thorough", solver="minisat", bounds="same query, SAT solver MiniSat"),
        H("c02_utf8::c02_acc_step_twin", kind="twin"),
    ],
}

PROPS["C04"] = {
    "claim": "InputGenerator::accept equals the reference automaton: inductive step over the whole decoder state x all bytes (no bound) through the abstraction alpha, plus all 5-byte (quick) / 7-byte (thorough) sequences from new() independent of alpha",
    "assumptions": ["DEL (0x7F) is left open by the statement: the reference treats it as text, like the code"],
    "harnesses": [
        H("c04_decoder::c04_decoder_step", bounds="arbitrary decoder state (csi flag, last byte, accumulator under acc_inv) x every byte; no bound", exhaustive=True),
        H("c04_decoder::c04_decoder_base", bounds="InputGenerator::new()", exhaustive=True),
        H("c04_decoder::c04_seq_from_new", tier="quick", bounds="every sequence of 5 bytes from new()"),
        H("c04_decoder::c04_terminator_count", tier="quick", bounds="every sequence of 5 bytes over {CR, LF}"),
        H("c04_decoder::c04_seq_from_new", tier="thorough", cfg=["vp_thorough"], timeout=3000, bounds="every sequence of 7 bytes from new()"),
        H("c04_decoder::c04_terminator_count", tier="thorough", cfg=["vp_thorough"], bounds="every sequence of 7 bytes over {CR, LF}"),
        H("c04_decoder::c04_decoder_step", tier="thorough", solver="minisat", bounds="same query, SAT solver MiniSat", exhaustive=True),
        H("c04_decoder::c04_decoder_step_twin", kind="twin"),
    ],
}


# properties whose check is not green yet are not claimed in MANIFEST.json
NOT_YET = []


def select(pid, tier, seed):
    out = []
    for h in PROPS[pid]["harnesses"]:
        t = h.get("tier", "both")
        if t == "both" or t == tier:
            if t == "thorough" and h.get("kind", "prove") == "prove":
                # deeper bounds: attempted under their caps; if one cannot be decided the
                # evidence says so and the verdict rests on the bounds that were decided
                h = dict(h)
                h.setdefault("optional", True)
            out.append(h)
    return out

PROPS["C17"] = {
    "claim": "encode_utf8, the stream decoder, char_count, char_byte_index, char_pop_front, common_prefix_len, short-option extraction and help detection agree with the Unicode/UTF-8 definitions for EVERY scalar value >= U+0020 except U+007F (char is a symbolic 21-bit variable; pairs/triples of scalars cover every combination of encoded lengths)",
    "assumptions": ["reference = core's char::encode_utf8 / char equality, executed symbolically alongside"],
    "harnesses": [
        H("c17_scalars::c17_encode", bounds="every scalar value; no bound", exhaustive=True),
        H("c17_scalars::c17_decode", bounds="every scalar value fed to InputGenerator::new(); no bound", exhaustive=True),
        H("c17_scalars::c17_count_index", bounds="every ordered pair of scalar values", exhaustive=True),
        H("c17_scalars::c17_pop_front", bounds="every ordered pair of scalar values", exhaustive=True),
        H("c17_scalars::c17_common_prefix", bounds="every triple of scalar values (prefix, left, right)", exhaustive=True),
        H("c17_scalars::c17_short_option", bounds="every scalar value other than '-' as a short option", exhaustive=True),
        H("c17_scalars::c17_history_recall", bounds="every scalar value pushed to a 6-byte history and recalled", exhaustive=True),
        H("c17_scalars::c17_error_line", bounds="every scalar value as the offending short option in the `error:` line", exhaustive=True, timeout=900, mem=4),
        H("c17_scalars::c17_encode", tier="thorough", solver="minisat", bounds="same query, SAT solver MiniSat", exhaustive=True),
        H("c17_scalars::c17_pop_front", tier="thorough", solver="minisat", bounds="same query, SAT solver MiniSat", exhaustive=True),
        H("c17_scalars::c17_encode_twin", kind="twin"),
    ],
}

PROPS["C07"] = {
    "claim": "Tokens::new + TokensIter equal the reference tokenizer on every line of <= 6 (quick) / <= 8 (thorough) bytes over all byte values except NUL; RawCommand::from_tokens splits name/arguments; quoted rendering of any list of <= 3 strings of <= 2 bytes round-trips",
    "assumptions": [
        "assumed away (statement silent): inside quotes a backslash followed by a byte other than quote/backslash, or by the end of the line",
        "lines longer than the bound are outside the claim (the scanner is a single-pass finite automaton, which is an argument, not a solver result)",
    ],
    "harnesses": [
    ] + [H("c07_tokens::c07_%s_n%d" % (k, n), bounds="every line of exactly %d bytes, all byte values but NUL%s" % (n, x), timeout=1500, mem=4)
         for n in range(0, 7) for (k, x) in [("tokens_vs_model", ""), ("raw_command_split", " (later tokens not starting with '-')")]] + [
        H("c07_tokens::c07_round_trip", bounds="every list of <= 3 strings of <= 2 bytes (any byte but NUL)", timeout=1500, mem=6),
    ] + [H("c07_tokens::c07_%s_n%d" % (k, n), tier="thorough", cfg=["vp_thorough"], bounds="every line of exactly %d bytes" % n, timeout=3400, mem=10)
         for n in (7, 8) for k in ("tokens_vs_model", "raw_command_split")] + [
        H("c07_tokens::c07_tokens_twin", kind="twin"),
    ],
}

PROPS["C08"] = {
    "claim": "ArgsIter over every NUL-separated token buffer of <= 6 (quick) / <= 8 (thorough) well-formed UTF-8 bytes (all encoded lengths, empty tokens, empty list) yields exactly the reference classification, item by item, with string payloads compared by position (offset,length) in the buffer - which implies the re-join law",
    "assumptions": ["token buffers longer than the bound are outside the claim"],
    "harnesses": [
    ] + [H("c08_args::c08_classify_n%d" % n, bounds="every well-formed token buffer of exactly %d bytes" % n, timeout=1500, mem=4) for n in range(0, 7)] + [
        H("c08_args::c08_classify_n7", tier="thorough", cfg=["vp_thorough"], bounds="token buffer of exactly 7 bytes", timeout=3400, mem=10),
        H("c08_args::c08_classify_n8", tier="thorough", cfg=["vp_thorough"], bounds="token buffer of exactly 8 bytes", timeout=3400, mem=10),
        H("c08_args::c08_classify_dashes", bounds="every token buffer of exactly 5 bytes over {-, a, NUL}", timeout=1200, mem=6),
        H("c08_args::c08_classify_twin", kind="twin"),
        H("c17_scalars::c17_pop_front", bounds="char_pop_front on every ordered pair of scalar values", exhaustive=True),
    ],
}

PROPS["C05"] = {
    "claim": "every Editor operation (insert of one scalar / of a text, move left/right, remove, Backspace = move_left+remove, clear, len, text, text_range) from ANY state satisfying the representation invariant equals the ideal editor over scalar values, byte for byte, for every buffer size 0..=6 (quick) / 0..=8 (thorough) in one query (buffer = &mut backing[..n], n symbolic); the invariant is re-established, so by induction the claim covers edit histories of any length",
    "assumptions": [
        "editor_inv: valid <= n, buf[..valid] well-formed UTF-8 without C0 controls, cursor <= scalar count (base case c05_base; every such state is reachable by typing the text and pressing Left)",
        "inserted characters are scalars >= U+0020 (the decoder never produces others, C04)",
        "buffers larger than the bound are outside the claim",
    ],
    "harnesses": [
        H("c05_editor::c05_insert_char", tier="quick", bounds="n<=6, any state, every scalar >= U+0020", timeout=900, mem=4),
        H("c05_editor::c05_insert_text", tier="quick", bounds="n<=6, any state, any well-formed text <= 6 bytes", timeout=900, mem=4),
        H("c05_editor::c05_move", tier="quick", bounds="n<=6, any state"),
        H("c05_editor::c05_remove", tier="quick", bounds="n<=6, any state"),
        H("c05_editor::c05_backspace", tier="quick", bounds="n<=6, any state"),
        H("c05_editor::c05_observers", tier="quick", bounds="n<=6, any state, any range start"),
        H("c05_editor::c05_base", tier="quick", bounds="n<=6"),
        H("c05_editor::c05_insert_char", tier="thorough", cfg=["vp_thorough"], bounds="n<=8", timeout=3400, mem=8),
        H("c05_editor::c05_insert_text", tier="thorough", cfg=["vp_thorough"], bounds="n<=8", timeout=3400, mem=8),
        H("c05_editor::c05_move", tier="thorough", cfg=["vp_thorough"], bounds="n<=8", timeout=3400),
        H("c05_editor::c05_remove", tier="thorough", cfg=["vp_thorough"], bounds="n<=8", timeout=3400, mem=8),
        H("c05_editor::c05_backspace", tier="thorough", cfg=["vp_thorough"], bounds="n<=8", timeout=3400, mem=8),
        H("c05_editor::c05_observers", tier="thorough", cfg=["vp_thorough"], bounds="n<=8", timeout=3400),
        H("c05_editor::c05_base", tier="thorough", cfg=["vp_thorough"], bounds="n<=8"),
        H("c05_editor::c05_insert_twin", kind="twin"),
    ],
}

def _c10():
    hs = []
    for H_ in range(0, 6):
        t = 300 + 300 * H_
        hs.append(H("c10_history::h%d::push_step" % H_, tier="both", bounds="H=%d, any state under history_inv, any well-formed text <= %d bytes (incl. NUL)" % (H_, H_ + 1), timeout=t, mem=2 + H_))
        hs.append(H("c10_history::h%d::navigate_step" % H_, tier="both" if H_ <= 4 else "thorough", bounds="H=%d, any state, Up or Down" % H_, timeout=t, mem=2 + H_))
        hs.append(H("c10_history::h%d::base" % H_, bounds="H=%d" % H_))
    for H_ in (6, 7):
        hs.append(H("c10_history::h%d::push_step" % H_, tier="thorough", cfg=["vp_thorough"], optional=True, bounds="H=%d" % H_, timeout=3400, mem=12))
        hs.append(H("c10_history::h%d::navigate_step" % H_, tier="thorough", cfg=["vp_thorough"], optional=True, bounds="H=%d" % H_, timeout=3400, mem=8))
    hs.append(H("c10_history::c10_from_new", tier="thorough", bounds="H=4, 3 pushes of <=2 ASCII bytes then 3 navigations from new()", timeout=1500, mem=6))
    hs.append(H("c10_history::c10_push_twin", kind="twin"))
    return hs


PROPS["C10"] = {
    "claim": "History::push / next_older / next_newer from ANY state satisfying the representation invariant (entries non-empty, NUL-terminated, well-formed, pairwise distinct) equal the reference history (dedupe, minimal oldest-first eviction, rejects, newest-first navigation) byte for byte and re-establish the invariant, one instance per buffer size H = 0..5 for push, 0..4 for navigation (quick) / 0..7 (thorough); plus a bounded run from new() independent of the invariant",
    "assumptions": [
        "history_inv (base cases hN::base; every such state is reachable by submitting the entries oldest first and pressing Up)",
        "after a rejected push the navigation position may be unchanged or reset (statement silent)",
        "history buffers larger than the bound are outside the claim",
    ],
    "harnesses": _c10(),
}

PROPS["C11"] = {
    "claim": "Autocompletion::merge_autocompletion for every free-space size 0..=4 and every list of <= 3 distinct candidate continuations of <= 3 well-formed bytes: result = longest common prefix on scalar boundaries, partial iff more than one candidate (exact when every candidate fits; safety half when one does not); Editor::autocompletion from ANY editor state (n <= 6 / 8) with <= 2 symbolic candidates: request = the single word, non-blank bytes never altered, valid <= n, line = word + common continuation + blank iff exactly one name and room; unchanged when nothing matches or an argument was started",
    "assumptions": [
        "the same command name proposed twice is outside the statement (assumed away)",
        "when some matching name's continuation is longer than the free space ('buffer space permitting') only the safety half is demanded: a prefix of the common continuation, never marked complete",
        "lines whose cursor is inside and that end in blanks are completed after dropping those blanks (the statement allows altering blanks)",
    ],
    "harnesses": [
        H("c11_complete::c11_merge_fits", bounds="free space 0..=4, <=3 distinct candidates of <=3 bytes, all fitting", timeout=900, mem=4),
        H("c11_complete::c11_merge_tight", bounds="free space 0..=4, <=3 distinct candidates of <=3 bytes, at least one longer than the free space", timeout=900, mem=4),
        H("c11_complete::c11_editor_autocompletion", tier="quick", bounds="n<=6, any editor state, <=2 candidates of <=3 bytes", timeout=1500, mem=8),
        H("c11_complete::c11_editor_autocompletion", tier="thorough", cfg=["vp_thorough"], bounds="n<=8", timeout=3400, mem=12),
        H("c11_derived::c11_derived_set_a", bounds="derived autocomplete for names {get, set, get-led, go}: every word <= 4 bytes, free space 0..=6", timeout=1500, mem=6),
        H("c11_derived::c11_derived_set_b", bounds="derived autocomplete for names {led, zhuk (Cyrillic), ledger, zhar (Cyrillic)}: every word <= 4 bytes, free space 0..=6", timeout=1500, mem=6),
        H("c11_derived::c11_derived_group", bounds="derived autocomplete of a command group (two visible members, a hidden member, a catch-all): every word <= 4 bytes, free space 0..=6", timeout=1800, mem=8),
        H("c11_derived::c11_cli_tab_with_help", cfg=["vp_n5", "vp_h0"], tags=["C11"], bounds="Tab through the Cli (N=5) with derived commands {heat, exit, heap} + built-in help: every single-word line of <= 4 bytes with the cursor at its end", timeout=1800, mem=8),
        H("c11_complete::c11_merge_twin", kind="twin"),
    ],
}

PROPS["C12"] = {
    "claim": "HelpRequest::from_command on every argument token buffer of exactly 0..4 bytes (quick) / up to 8 (thorough) of well-formed UTF-8, for the name `help` and for another name: All iff `help` alone; Command(first value, rest) iff `help` + value; for other names Some iff an option before any `--` is --help or a cluster containing h. Routing: process_input on 14 token-list templates never enters the handler for a help request. Content: the text printed for 23 help requests on derived enums and a command group (expanded by /repo's macros at every run) equals, byte for byte, text written by hand from the documented format",
    "assumptions": ["`help` followed directly by an option or `--` is left open by the statement"],
    "harnesses": [
    ] + [H("c12_help::c12_request_predicate_n%d" % n, bounds="every well-formed token buffer of exactly %d bytes, name in {help, led}" % n, tier=("both" if n <= 4 else "thorough"), timeout=1800, mem=5) for n in range(0, 7)] + [
        H("c12_help::c12_request_predicate_n7", tier="thorough", cfg=["vp_thorough"], bounds="token buffer of exactly 7 bytes", timeout=3400, mem=10),
        H("c12_help::c12_request_predicate_n8", tier="thorough", cfg=["vp_thorough"], bounds="token buffer of exactly 8 bytes", timeout=3400, mem=12),
    ] + routing_set(["C12"]) + [
    ] + [H("c12_content::" + n, bounds="help text for %s compared byte by byte with the documented format" % n, timeout=900, mem=4) for n in [
        "help_all", "help_led", "led_dash_h", "led_long_help", "led_cluster_h", "help_go", "help_cp", "cp_dash_h_among_values", "help_sub", "help_sub_ping", "sub_ping_dash_h",
        "help_dev", "dev_opts_dash_h", "dev_default_opt_ping_dash_h", "help_dev_all_opts_ping", "help_dev_opts_unknown",
        "help_unknown", "help_unknown_sub", "group_help_all", "group_help_second_member", "group_help_first_member", "group_help_hidden", "group_hidden_dash_h"]] + [
        H("c12_help::c12_request_twin", kind="twin"),
    ],
}

PROPS["C13"] = {
    "claim": "Writer: ONE call of a symbolically chosen entry point (write_str / writeln_str / core::fmt::Write::write_str / ufmt::uWrite::write_str) with symbolic well-formed text <= 3 bytes over {x, e-acute, CR, LF} from an ARBITRARY writer state under its invariant: the sink receives exactly the text with each LF replaced by CR LF (+ CR LF for writeln_str), and a line break is owed iff the output so far is non-empty and does not end with LF; inductive, so any number of calls",
    "assumptions": [
        "writer invariant: the remembered last two bytes never contain LF (base case c13_writer_base)",
        "formatted writes are represented by the two trait entry points that write!/uwrite! call; the formatting engines themselves are core/ufmt code",
        "texts longer than 3 bytes per call and other characters are outside the claim",
    ],
    "harnesses": [
        H("c13_output::c13_step_write_str", bounds="any writer state, write_str, text <= 3 bytes over {x, e-acute, CR, LF}", timeout=900, mem=6),
        H("c13_output::c13_step_writeln_str", bounds="any writer state, writeln_str, text <= 3 bytes over {x, e-acute, CR, LF}", timeout=900, mem=6),
        H("c13_output::c13_step_fmt_write", bounds="any writer state, core::fmt::Write::write_str, text <= 3 bytes", timeout=900, mem=6),
        H("c13_output::c13_step_uwrite", bounds="any writer state, ufmt::uWrite::write_str, text <= 3 bytes", timeout=900, mem=6),
        H("c13_output::c13_writer_base", bounds="Writer::new()"),
        H("c13_output::c13_writer_twin", kind="twin"),
    ],
}


CHEAP = ["key_backspace", "key_forward", "key_back", "key_up", "key_down", "key_char1", "key_char2", "key_char3", "key_char4", "key_tab"]

PROPS["C01"] = {
    "claim": "Cli-level one-step induction from ANY state satisfying CliInv (N=3, H=3; N=4 in the thorough tier): no key other than Enter enters the handler and the editing keys leave exactly the ideal editor's / reference history's line; Enter (one instance per line length, history buffer 0) enters the handler exactly once iff the reference tokenizer finds a token and the line is not a help request, with exactly the reference command name (and, in the build without help, every classified argument), leaves an empty line and exactly one prompt after the last line feed; the history side of Enter from ANY history state; process_input routing on 14 token-list templates; process_byte == accept + per-key entry (glue); CliInv is re-established, so the claim covers edit histories of any length",
    "assumptions": CLI_ASSUME,
    # "the line as it stood after every insertion, deletion, cursor move, recall and completion":
    # the editing keys' ideal-editor / history assertions (tags C05, C10) are part of C01's claim
    "harnesses": cli_keys("cli_steps", CHEAP, tags=["C01", "C05", "C10"], timeout=900, mem=4) + [
    ] + enter_set("cli_steps::key_enter", ["C01"]) + [
    ] + routing_set(["C01", "C12"]) + [
        H("cli_steps::api_build", tags=["C01"], bounds="CliBuilder::build() with each of the three prompts"),
    ] + cli_keys("cli_steps", CHEAP, tags=["C01"], tier="thorough", cfg=["vp_n4", "vp_h4"], timeout=3000, mem=8) + [
    ] + [H("cli_steps::key_enter_v%d" % v, tags=["C01"], tier="thorough", cfg=["vp_n4", "vp_h0"], bounds="N=4: Enter from ANY editor state with a line of exactly %d bytes, history buffer of size 0 (help-shaped lines `help`, `x -h` exist at this size)" % v, timeout=3400, mem=14) for v in range(0, 5)] + [
        H("cli_glue::glue_ascii_v1", tags=["C01"], features=[], cfg=["vp_h0"], nodebug=True, bounds="process_byte(b) vs accept(b) + per-key entry: ANY editor state with a 1-byte line (N=3), ANY decoder state, every byte < 0x80; optional features off", timeout=2400, mem=8),
        H("cli_glue::glue_ascii", tier="thorough", optional=True, tags=["C01"], features=[], cfg=["vp_h0"], nodebug=True, bounds="process_byte(b) vs accept(b) + per-key entry: ANY editor state (N=3), ANY decoder state, every byte < 0x80; optional features off (process_byte has no cfg gate - checked textually)", timeout=2400, mem=12),
        H("cli_steps::key_enter_twin", kind="twin", cfg=["vp_h0"], mem=6),
    ],
}

PROPS["C15"] = {
    "claim": "after every successful Cli-level step (every key incl. Enter, from ANY CliInv state, N=3,H=3) the counting sink has no unflushed byte",
    "assumptions": CLI_ASSUME,
    "harnesses": cli_keys("cli_steps", CHEAP, tags=["C15"], timeout=900, mem=4) + [
    ] + [h for h in enter_set("cli_steps::key_enter", ["C15"]) if "features" not in h and "history" not in h["name"]] + [
        H("cli_steps::api_write_set_prompt", tags=["C15", "C13"], bounds="Cli::set_prompt / Cli::write(write_str|writeln_str of <= 2 bytes over {x, LF}) from ANY CliInv state", timeout=900, mem=4),
        H("cli_steps::api_build", tags=["C15"], bounds="CliBuilder::build() with each of the three prompts"),
        H("cli_steps::api_process_error", tags=["C15", "C09"], bounds="the `error:` line for each of the six kinds of parse error (every scalar as the short option)", timeout=900, mem=4),
    ] + routing_set(["C15"]) + [
        H("cli_steps::key_enter_twin", kind="twin", cfg=["vp_h0"], mem=6),
    ],
}

PROPS["C09"] = {
    "claim": "for each variant of a corpus of derive(Command)/derive(CommandGroup) declarations (expanded by /repo's macros at every run: unit, struct and tuple variants; positional / option / flag fields; u8, i8, u16, char, &str, bool, Option<bool>; Option; default_value; default_value_t; explicit and generated short/long names incl. a non-ASCII short; value_name; renamed command; required and optional sub-commands; a group with a hidden member and a catch-all) and EVERY argument token buffer of <= 5 (quick) / 6 (thorough) well-formed bytes, the derived FromRaw::parse and a declaration interpreter agree on the outcome: the variant, every field value (strings by position), or the first offending item with its payload",
    "assumptions": [
        "the program quantifier (all declarations) is covered by a finite hand-written corpus only; the proc-macro itself is not executed symbolically",
        "assumed away (statement silent): an option name directly followed by another option, by `--` or by the end of the line; a value-taking option given twice",
        "f32/f64 and the wider integer types are outside the claim",
    ],
    "harnesses": [H("c09_derive::n%d::%s" % (n, v), tier=("both" if ((v.startswith("p1_") and v != "p1_exit" and n == 3) or (v == "p1_exit" and n <= 4)) else "thorough"), cfg=(["vp_thorough"] if n == 6 else []), bounds="%s, every well-formed token buffer of exactly %d bytes" % (d, n), timeout=3000, mem=(5.4 if n <= 4 else 8))
                  for n in range(0, 7)
                  for (v, d) in [("p1_exit", "unit variant"),
                                 ("p1_led", "positional u8 + Option<u8> option (-l/--lv) + flag with generated short and explicit long (-v/--loud)"),
                                 ("p1_read", "renamed command, &str positional + i8 positional with default_value"),
                                 ("p1_cfg", "u8 option with default_value_t (--n), required &str option with value_name (-k), non-ASCII flag"),
                                 ("p2_base", "named variant with a flag and a required sub-command; sub-command name is the last token"),
                                 ("p2_tup", "renamed tuple variant with a sub-command"),
                                 ("p2_opt", "optional sub-command")]] + [
    ] + [H("c09_derive::" + c, bounds="sub-command parsing on the concrete token list `%s` (parent variants: named with a flag, renamed tuple, optional)" % c[4:], timeout=900, mem=4)
         for c in ("p2c_base_exit", "p2c_base_flag_ping", "p2c_base_unknown", "p2c_base_missing", "p2c_base_bad_option", "p2c_base_sub_extra_arg", "p2c_tup_ping", "p2c_tup_missing", "p2c_opt_none", "p2c_opt_exit")] + [
    ] + [H("c09_derive::p4_ty_n%d" % n, tier=("both" if n in (0, 3) else "thorough"), bounds="Option<char> option, Option<bool> flag, u16 option with default_value_t: every well-formed token buffer of exactly %d bytes" % n, timeout=2400, mem=5.4) for n in (0, 3, 4, 5)] + [
        H("cli_steps::api_process_error", tags=["C09", "C15"], bounds="the `error:` line for each of the six kinds of parse error: a single terminated line, flushed", timeout=900, mem=4),
        H("c09_derive::c09_name_dispatch", bounds="every command name of <= 4 bytes against P1 and the group G", timeout=1200, mem=6),
        H("c09_derive::c09_twin", kind="twin"),
    ],
}

SHOW_KEYS = ["show_backspace", "show_forward", "show_back", "show_up", "show_tab", "show_char1", "show_char2", "show_char3"]

PROPS["C06"] = {
    "claim": "coupling invariant Show(cli, terminal): an ECMA-48 subset terminal emulator (printable scalars, CR, LF, CSI C/D/P/@/2K; anything else is an error) IS the sink of the real call and is constructed to show prompt + line with the cursor at the editor's cursor for an ARBITRARY CliInv state (N=3, H=3, three prompts incl. a multi-byte one): after one step of a typed scalar (1-3 bytes, inside / at the end / rejected), Backspace, Left, Right, Up, Down, Tab and Cli::set_prompt it shows prompt + line with the cursor at the editor's cursor again. For Enter (handler silent / writing / changing the prompt / both) and Cli::write the real call is shown to send exactly a specified byte transcript, and harness-side lemmas show that this transcript, interpreted by the emulator from ANY CliInv line/cursor/prompt, displays prompt + line with the cursor at the editor's cursor and exactly the expected line breaks; by induction at every moment of every session",
    "assumptions": CLI_ASSUME + [
        "every scalar has display width 1 (the property's own quantifier); DEL is excluded from lines and typed characters",
        "terminal width is larger than prompt + N + 2 cells (no wrapping)",
    ],
    "harnesses": cli_keys("cli_term", SHOW_KEYS, tags=["C06"], timeout=1200, mem=5) + cli_keys("cli_term", ["show_down"], tags=["C06"], tier="thorough", timeout=1200, mem=5) + [
        H("cli_term::show_cli_write_quick", tags=["C06", "C13"], cfg=["vp_h0"], bounds="Cli::write(write_str(x)) from ANY editor state with a 2-byte line and any cursor (N=3), prompt `$ `: the sink receives exactly the expected transcript (part 2: term_redraw_lemma)", timeout=1800, mem=6),
    ] + [H("cli_term::show_enter_" + c, tags=["C06", "C13"], cfg=["vp_h0"], tier=("both" if c in ("v0_silent", "v2_x", "v2_x_and_prompt") else "thorough"),
           bounds="Enter from ANY editor state (N=3, history buffer of size 0), line length / handler behaviour `%s` (silent, writes x / x+LF / LF / x+LF+x, changes the prompt, writes x and changes the prompt): the sink receives exactly the expected transcript (part 2: term_enter_lemma)" % c, timeout=2400, mem=8)
         for c in ("v0_silent", "v1_silent", "v1_x", "v1_prompt", "v2_silent", "v2_x", "v2_xlf", "v2_lf", "v2_xlfx", "v2_prompt", "v2_x_and_prompt", "v3_silent", "v3_x", "v3_xlf", "v3_prompt")] + [
    ] + [H("cli_term::show_cli_write_v%d_p%d" % (v, pr), tags=["C06", "C13"], cfg=["vp_h0"], bounds="Cli::write(write_str of one of \"\", x, x+LF, LF, x+LF+x) from ANY editor state with a line of exactly %d bytes (N=3), prompt %s: the sink receives exactly the expected transcript (part 2: term_redraw_lemma)" % (v, ["empty", "", "e-acute> "][pr]), tier="thorough", timeout=2400, mem=8) for v in range(0, 4) for pr in (0, 2)] + [
        H("cli_term::term_enter_lemma", tags=["C06", "C13"], bounds="harness-side lemma: the byte transcript of Enter (any of 5 output texts, any prompt) fed to the terminal emulator from ANY Show state leaves the submitted line on its row, the output below it and a fresh row with the prompt", timeout=1800, mem=8),
        H("cli_term::term_redraw_lemma", tags=["C06", "C13"], bounds="harness-side lemma: the byte transcript of Cli::write, for ANY CliInv line/cursor/prompt and any of the 5 output texts, fed to the terminal emulator from ANY terminal state, displays prompt + line with the cursor at the editor's cursor", timeout=1800, mem=8),
        H("cli_term::show_set_prompt", tags=["C06"], bounds="Cli::set_prompt(any of three prompts) from ANY CliInv state", timeout=1200, mem=5),
        H("cli_term::show_twin", kind="twin"),
    ],
}

FAIL_KEYS = ["fail_backspace", "fail_forward", "fail_back", "fail_up", "fail_down", "fail_char1", "fail_char2", "fail_tab"]

PROPS["C14"] = {
    "claim": "with a sink that fails at a SYMBOLIC call position (write and flush calls counted together; once or permanently), every Cli-level step from ANY CliInv state (N=3,H=3; Enter per line length with history buffer 0): the call returns Err iff the sink failed during it; editor and decoder are restored; the line is as before, as the key would have left it, or cleared; CliInv holds afterwards (so later input is decoded normally and a later Enter dispatches only typed text, by C01/C05 induction); the same through the public process_byte (decoder consumed exactly the byte, error or not); help of a derived two-member command group with the fault at six constant positions",
    "assumptions": CLI_ASSUME + ["handler output is one of: nothing, write_str(\"o\"), writeln_str(\"o\")"],
    "harnesses": cli_keys("cli_fail", FAIL_KEYS, tags=["C14"], timeout=1200, mem=5) + [
    ] + [H("cli_fail::fail_enter_v%d" % v, tags=["C14"], cfg=["vp_h0"], bounds="Enter from ANY editor state with a line of exactly %d bytes (N=3, history buffer of size 0), handler writes nothing / \"o\" / \"o\"+newline, fault at any call position" % v, tier=("both" if v in (0, 2) else "thorough"), timeout=2400, mem=8) for v in range(0, 4)] + [
        H("cli_fail::fail_cli_write", tags=["C14"], bounds="Cli::write / Cli::set_prompt from ANY CliInv state, fault at any call position", timeout=1200, mem=5),
        H("cli_fail::fail_process_error", tags=["C14"], bounds="the `error:` line for three kinds of parse error (every scalar as short option), fault at any call position", timeout=1200, mem=5),
    ] + [H("cli_fail::fail_group_help_" + k, tags=["C14", "C12"], bounds="help request %s on a derived two-member command group, sink failing at that call (once or permanently: symbolic); request and position are constants" % k, timeout=1200, mem=5)
         for k in ("first_at0", "first_at2", "first_at6", "second_at0", "second_at3", "dash_h_at1")] + [
        H("cli_glue::glue_fail_ascii_v1", tags=["C14"], features=[], cfg=["vp_h0"], nodebug=True, bounds="process_byte(b) vs accept(b) + per-key entry, both with a sink failing at a symbolic call position (once or permanently): ANY editor state with a 1-byte line (N=3), decoder flags and last byte symbolic, every byte < 0x80; optional features off", timeout=2400, mem=8),
        H("cli_fail::fail_twin", kind="twin"),
    ],
}

# ---------------------------------------------------------------------------- C16: all 8 feature combinations
import itertools


def _c16():
    hs = []
    names = ["history", "autocomplete", "help"]
    for r in range(0, 4):
        for combo in itertools.combinations(names, r):
            feats = list(combo)
            label = "+".join(feats) or "none"
            for k in ["key_up", "key_down", "key_tab", "key_backspace", "key_char2"]:
                d = dict(features=feats, tags=["C16", "C01", "C05", "C10", "C15"], bounds="features {%s}: %s from ANY CliInv state (N=3,H=3)" % (label, k), timeout=900, mem=4)
                if "char" in k:
                    d["nodebug"] = True
                hs.append(H("cli_steps::" + k, **d))
            for r_ in ("routing_help", "routing_help_cmd", "routing_dash_h", "routing_long_help", "routing_name_value"):
                hs.append(H("cli_steps::" + r_, features=feats, tags=["C16", "C01", "C12", "C15"], bounds="features {%s}: process_input on template %s" % (label, r_[8:]), timeout=1200, mem=5))
            if len(feats) in (0, 3) or feats == ["help"]:
                hs.append(H("cli_steps::key_enter_v2", features=feats, cfg=["vp_h0"], tags=["C16", "C01", "C15"], bounds="features {%s}: Enter, line of 2 bytes, N=3, history buffer of size 0" % label, timeout=2400, mem=10))
    hs.append(H("cli_steps::key_enter_twin", kind="twin", cfg=["vp_h0"], mem=6))
    return hs


PROPS["C16"] = {
    "claim": "all 8 combinations of {history, autocomplete, help} (macros on) build, and in each the Cli-level steps (Up, Down, Tab, Backspace, a typed 2-byte scalar from ANY CliInv state; process_input on every token buffer <= 6 bytes; Enter in three combinations) satisfy the same post-conditions as in the default build except for the disabled facility: without history Up/Down change neither line nor output, without autocomplete Tab likewise, without help every help-shaped token list reaches the handler",
    "assumptions": CLI_ASSUME,
    "build_failure_is_violation": True,
    "harnesses": _c16(),
}


def _c03():
    hs = []
    for n in (0, 1, 2):
        for h in (0, 1, 2):
            cfg = ["vp_n%d" % n, "vp_h%d" % h]
            b = "N=%d, H=%d" % (n, h)
            # with a non-empty history buffer of 2 bytes the Enter oracles do not fit into memory: plain Enter there
            enters = ["key_enter_v%d" % v for v in range(0, n + 1)] if h < 2 else ["enter_plain_v%d" % v for v in range(0, n + 1)]
            for k in ["key_backspace", "key_forward", "key_back", "key_up", "key_down", "key_tab", "key_char1", "key_char2", "api_write_set_prompt", "api_build"] + enters:
                d = dict(cfg=list(cfg), tags=["C03"], tier=("both" if n == h else "thorough"), bounds="%s: %s from ANY CliInv state; only Kani's own checks (panic, overflow, bounds, pointer validity, unchecked preconditions) are counted" % (b, k), timeout=1500, mem=4)
                if "char" in k:
                    d["nodebug"] = True
                if "enter" in k:
                    d["mem"] = 6
                    d["timeout"] = 2400
                if k == "enter_plain_v1":
                    d["tier"] = "thorough"
                hs.append(H("cli_steps::" + k, **d))
    # component harnesses whose buffers have symbolic / boundary sizes
    hs += [
        H("c05_editor::c05_insert_char", tags=["C03"], bounds="editor buffer of every size 0..=6", timeout=900, mem=4),
        H("c05_editor::c05_insert_text", tags=["C03"], bounds="editor buffer of every size 0..=6", timeout=900, mem=4),
        H("c05_editor::c05_backspace", tags=["C03"], bounds="editor buffer of every size 0..=6"),
        H("c05_editor::c05_observers", tags=["C03"], bounds="editor buffer of every size 0..=6"),
        H("c11_complete::c11_editor_autocompletion", tags=["C03"], bounds="editor buffer of every size 0..=6, <=2 candidates", timeout=1500, mem=8),
        H("c11_complete::c11_merge_tight", tags=["C03"], bounds="free space 0..=4", timeout=900, mem=4),
        H("c10_history::h0::push_step", tags=["C03"], bounds="H=0"),
        H("c10_history::h1::push_step", tags=["C03"], bounds="H=1"),
        H("c10_history::h2::push_step", tags=["C03"], bounds="H=2"),
        H("c10_history::h1::navigate_step", tags=["C03"], bounds="H=1"),
        H("c10_history::h2::navigate_step", tags=["C03"], bounds="H=2"),
        H("c02_utf8::c02_acc_step", tags=["C03"], bounds="any accumulator state x every byte", exhaustive=True),
        H("c04_decoder::c04_decoder_step", tags=["C03"], bounds="any decoder state x every byte", exhaustive=True),
        H("c17_scalars::c17_pop_front", tags=["C03"], bounds="char_pop_front on every pair of scalars (from_u32_unchecked precondition)", exhaustive=True),
        H("c07_tokens::c07_tokens_vs_model_n6", tags=["C03"], bounds="in-place tokenisation of every line of exactly 6 bytes", timeout=900, mem=4),
        H("cli_steps::key_enter_twin", kind="twin", cfg=["vp_h0"], mem=6),
    ]
    return hs


def static_c03(repo):
    """inventory of the unsafe sites (goes into the evidence)"""
    notes = []
    total = 0
    for root, _, files in os.walk(os.path.join(repo, "embedded-cli", "src")):
        for f in sorted(files):
            if f.endswith(".rs"):
                src = open(os.path.join(root, f)).read()
                body = src.split("#[cfg(test)]")[0]
                n = len(re.findall(r"\bunsafe\b", body))
                if n:
                    notes.append("%s: %d unsafe blocks/fns" % (f, n))
                    total += n
    notes.append("total unsafe sites in library code: %d" % total)
    return notes


def static_c01(repo):
    """process_byte must not contain cfg gates (the glue harness is decided in one configuration)"""
    src = open(os.path.join(repo, "embedded-cli", "src", "cli.rs")).read()
    i = src.index("pub fn process_byte")
    depth = 0
    j = src.index("{", i)
    k = j
    while True:
        if src[k] == "{":
            depth += 1
        elif src[k] == "}":
            depth -= 1
            if depth == 0:
                break
        k += 1
    body = src[j:k]
    if "cfg" in body:
        raise StaticCheckFailed("a cfg gate appeared inside Cli::process_byte: the glue transfer argument no longer holds")
    return ["Cli::process_byte contains no cfg gate (%d bytes of source inspected)" % len(body)]


PROPS["C03"] = {
    "claim": "no failed Kani check (panic, unwrap on None, arithmetic overflow, slice / pointer out of bounds, precondition of copy_nonoverlapping / get_unchecked / from_raw_parts_mut / unwrap_unchecked, explicit debug assertions) in any Cli-level step (every key, Enter, Tab, Cli::write, set_prompt, build) from ANY CliInv state for the boundary sizes (N,H) in {0,1,2}x{0,1,2}, nor in the component steps with symbolic buffer sizes including 0 (editor 0..=6, history 0..=2, completion free space 0..=4), nor in the unbounded decoder/accumulator/char kernels; by induction over one step, for call sequences of any length",
    "assumptions": CLI_ASSUME + [
        "only untagged failures (Kani's built-in checks) count for C03; functional assertions belong to the other properties",
        "well-formedness of text before from_utf8_unchecked consumers is C02's explicit assertion",
        "sizes 3..64: N=H=3 is covered by C01/C05/C06/C14; larger sizes are outside the solver claim",
    ],
    "harnesses": _c03(),
}
