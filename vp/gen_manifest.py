#!/usr/bin/env python3
"""Regenerates /verif/MANIFEST.json from vp/table.py (single source of truth)."""
import json
import os
import subprocess
import sys

ROOT = os.path.dirname(os.path.dirname(os.path.abspath(__file__)))
sys.path.insert(0, os.path.join(ROOT, "vp"))
import table

ALL = ["C%02d" % i for i in range(1, 18)]


def hook_commits():
    try:
        out = subprocess.run(["git", "-C", "/repo", "log", "--format=%H %s"], capture_output=True, text=True).stdout
        return [l.split()[0] for l in out.splitlines() if " verif hooks" in l]
    except Exception:
        return []


def main():
    checks = []
    na = []
    for pid in ALL:
        spec = table.PROPS.get(pid)
        if not spec or not spec.get("claimed", True) or pid in getattr(table, "NOT_YET", []):
            na.append({"property_id": pid, "reason": (spec or {}).get("na_reason", "check not built yet in this round (planned, see DESIGN.md section 4)")})
            continue
        checks.append({
            "property_id": pid,
            "quick_cmd": "./check %s --tier quick" % pid,
            "thorough_cmd": "./check %s --tier thorough" % pid,
            "evidence_file": "/verif/evidence/%s.json" % pid,
            "replay_cmd_template": "./check %s --replay {path}" % pid,
            "engine": "kani-cbmc",
            "level_claimed": {
                "category": "model_checking",
                "text": "Bounded model checking of the real code: " + spec["claim"] + ". Within the stated bounds the SAT solver decides every input/state; nothing outside them is claimed.",
                "design_ref": "DESIGN.md section 4, " + pid,
            },
            "level_note": "; ".join(spec.get("assumptions", []) + table.COMMON_ASSUMPTIONS),
            "technique": spec.get("technique", "Kani/CBMC bounded model checking (SAT) of the compiled Rust code: symbolic inputs and one-step induction from arbitrary invariant states, counterexamples replayed natively"),
        })
    m = {
        "version": 1,
        "setup_cmd": "./setup.sh",
        "hooks": {
            "guard": "funbiscuit_embedded_cli_rs_verif",
            "enable": "RUSTFLAGS='--cfg funbiscuit_embedded_cli_rs_verif' (set by ./check for every cargo kani invocation; the harness crate /verif/harness has a path dependency on /repo/embedded-cli)",
            "baseline_off_cmd": "cd /repo && cargo test --workspace --no-fail-fast --offline",
            "source_commits": hook_commits(),
            "add_only": True,
        },
        "engines": [{
            "name": "kani-cbmc",
            "path": "/verif/check",
            "serves_properties": [c["property_id"] for c in checks],
            "kind_free_text": "python driver running one `cargo kani --harness h --exact` per solver query on /verif/harness (path dep on /repo); CBMC 6.11 + CaDiCaL/MiniSat; concrete playback for native replay",
        }],
        "checks": checks,
        "notes": "Evidence is rewritten by every run. known_findings.json lists recorded/fixed defects. exit 2 from ./check = inconclusive (never reported as success).",
        "not_applicable": na,
    }
    with open(os.path.join(ROOT, "MANIFEST.json"), "w") as f:
        json.dump(m, f, indent=1)
        f.write("\n")
    print("MANIFEST.json: %d checks, %d not_applicable" % (len(checks), len(na)))


if __name__ == "__main__":
    main()
