#!/bin/bash
# stop every running ./check driver and solver (development helper)
for p in $(ps -eo pid,comm,args | awk '$2 ~ /^python3/ && /check/ {print $1}'); do kill $p 2>/dev/null; done
for p in $(ps -eo pid,comm | awk '$2=="cbmc" || $2=="kani-driver" || $2=="cargo-kani" {print $1}'); do kill $p 2>/dev/null; done
exit 0
