#!/usr/bin/env python3
"""Prints the per-property cost/coverage table of DESIGN.md section 9 from the evidence files."""
import json
import os
ROOT = os.path.dirname(os.path.dirname(os.path.abspath(__file__)))
print("| property | tier | harnesses (discharged) | CBMC checks decided | functions of the crates encoded | wall [s] | longest harness [s] |")
print("|---|---|---|---|---|---|---|")
for i in range(1, 18):
    pid = "C%02d" % i
    p = os.path.join(ROOT, "evidence", pid + ".json")
    if not os.path.exists(p):
        continue
    ev = json.load(open(p))
    c = ev["coverage"]
    ss = c["samples"]
    longest = max(ss, key=lambda s: s["wall_s"]) if ss else None
    print("| %s | %s | %d (%d) | %d | %d | %d | %s %d |" % (
        pid, ev["tier"], c.get("harnesses_run", len(ss)), c.get("harnesses_discharged", 0), c["evaluations"],
        len(c.get("functions_encoded", [])), ev["wall_s"], longest["harness"].split("::", 1)[-1] if longest else "-", longest["wall_s"] if longest else 0))
