#!/bin/bash
# usage: seedtest.sh <seed-name e.g. C04-m1> <worktree> <check id> [<check id> ...]
# Confirms a seeded change (suite still passes, demo fails with / passes without it),
# then runs the named checks against the worktree with the change applied.
set -u
name=$1; wt=$2; shift 2
# demos of feature-dependent seeds (C16) only exist in builds without the default features
demoflags=""
case $name in C16-*) demoflags="--no-default-features --features macros";; esac
d=/verif/seeded/$name
log=$d/confirm.log
export CARGO_NET_OFFLINE=true
cd $wt || exit 9
git checkout -q -- . ; rm -f embedded-cli/tests/seed_demo.rs
# the worktree follows /repo's HEAD (repairs made after the seed was written included)
git checkout -q --detach $(git -C /repo rev-parse HEAD)
: > $log
echo "base: $(git rev-parse --short HEAD)" | tee -a $log
git apply $d/patch.diff || { echo "patch does not apply" | tee -a $log; exit 9; }
suite=$(CARGO_TARGET_DIR=$wt/target cargo test --workspace --offline 2>&1 | grep -E "^test result" | awk '{p+=$4; f+=$6} END{print p" passed "f" failed"}')
echo "suite with change: $suite" | tee -a $log
cp $d/demo.rs embedded-cli/tests/seed_demo.rs
with=$(CARGO_TARGET_DIR=$wt/target cargo test -p embedded-cli --offline $demoflags --test seed_demo 2>&1 | grep -E "^test result" | tail -1)
echo "demo with change: $with" | tee -a $log
rm embedded-cli/tests/seed_demo.rs
git checkout -q -- .
cp $d/demo.rs embedded-cli/tests/seed_demo.rs
without=$(CARGO_TARGET_DIR=$wt/target cargo test -p embedded-cli --offline $demoflags --test seed_demo 2>&1 | grep -E "^test result" | tail -1)
echo "demo without change: $without" | tee -a $log
rm embedded-cli/tests/seed_demo.rs
git apply $d/patch.diff
for spec in "$@"; do
  # spec = Cxx or Cxx:substring (restrict to the quick-tier harnesses whose name contains it)
  c=${spec%%:*}
  only=""
  if [ "$spec" != "$c" ]; then only="--only ${spec#*:}"; fi
  out=$(cd /verif && VP_REPO=$wt ./check $c $only 2>&1)
  rc=$?
  echo "check $c rc=$rc ${only}" | tee -a $log
  echo "$out" | grep -aE "VIOLATION|INCONCLUSIVE|FAIL |discharged" | cut -c1-300 | tee -a $log
done
git checkout -q -- .
