#!/bin/bash
# Offline setup: nothing to install.  Verifies the tools the checks need and warms
# the cargo/kani build of the harness crate (also proves it builds offline).
set -e
cd "$(dirname "$0")"
export CARGO_NET_OFFLINE=true
command -v cargo-kani >/dev/null || { echo "cargo-kani missing"; exit 1; }
command -v cbmc >/dev/null || { echo "cbmc missing"; exit 1; }
cargo kani --version
mkdir -p "${VP_WORK:-/tmp/vp-work}/logs"
python3 vp/gen_manifest.py >/dev/null
git -C /verif diff --quiet -- MANIFEST.json 2>/dev/null || echo "note: MANIFEST.json regenerated"
echo "setup ok"
