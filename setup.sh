#!/bin/bash
# Offline setup: nothing to install.  Verifies the tools the checks need and warms
# the cargo/kani build of the harness crate (also proves it builds offline).
set -e
cd "$(dirname "$0")"
export CARGO_NET_OFFLINE=true
command -v cargo-kani >/dev/null || { echo "cargo-kani missing"; exit 1; }
command -v cbmc >/dev/null || { echo "cbmc missing"; exit 1; }
cargo kani --version
mkdir -p "${VP_WORK:-/tmp/vp-work}/logs"
python3 vp/gen_manifest.py >/dev/null
git -C /verif diff --quiet -- MANIFEST.json 2>/dev/null || echo "note: MANIFEST.json regenerated"
# native sanity tests of the reference models against the real code (not a verdict)
out=$(cd harness && RUSTFLAGS="--cfg funbiscuit_embedded_cli_rs_verif" timeout 900 cargo test --offline --test native_models --test native_defects --target-dir "${VP_WORK:-/tmp/vp-work}/t-native" 2>&1)
echo "$out" | grep -E "^test |test result" || true
if echo "$out" | grep -q "FAILED"; then echo "native tests failed"; echo "$out" | tail -30; exit 1; fi
echo "$out" | grep -q "test result: ok" || { echo "native model tests failed"; echo "$out" | tail -30; exit 1; }
echo "setup ok"
